#!/usr/bin/env python3
"""Install a property-preserving change produced by a sub-agent under /verif/benign/<id>/ after confirming that it applies to
/repo HEAD, builds, and passes the whole test suite (in the scratch worktree /tmp/wt-confirm).
   tools/confirm_benign.py <PROP> <src dir with patch.diff README.md> <id>"""
import json
import os
import shutil
import subprocess
import sys

WT = "/tmp/wt-confirm"


def sh(cmd, **kw):
    return subprocess.run(cmd, shell=True, capture_output=True, text=True, **kw)


def main():
    prop, src, sid = sys.argv[1:4]
    if not os.path.exists(WT):
        r = sh("git -C /repo worktree add -f %s HEAD" % WT)
        assert r.returncode == 0, r.stderr
    sh("git -C %s checkout -q --detach $(git -C /repo rev-parse HEAD) && git -C %s checkout -- ." % (WT, WT))
    patch = os.path.join(src, "patch.diff")
    res = {"property": prop, "id": sid, "kind": "property-preserving", "repo_head": sh("git -C /repo rev-parse --short HEAD").stdout.strip()}
    r = sh("git -C %s apply %s" % (WT, patch))
    res["applies"] = r.returncode == 0
    r = sh("cmake -G Ninja -S %s -B %s/_build >/dev/null && cmake --build %s/_build 2>&1 | tail -3" % (WT, WT, WT))
    res["builds"] = r.returncode == 0
    r = sh("ctest --test-dir %s/_build -j16 2>&1 | tail -3" % WT)
    res["ctest"] = r.stdout.strip().splitlines()[0] if r.stdout.strip() else r.stderr[-200:]
    res["confirmed"] = res["applies"] and res["builds"] and "100% tests passed" in r.stdout
    sh("git -C %s checkout -- ." % WT)
    if res["confirmed"]:
        dst = os.path.join(os.path.dirname(os.path.dirname(os.path.abspath(__file__))), "benign", sid)
        os.makedirs(dst, exist_ok=True)
        for f in ("patch.diff", "README.md"):
            shutil.copy(os.path.join(src, f), os.path.join(dst, f))
        json.dump(res, open(os.path.join(dst, "meta.json"), "w"), indent=1)
    print(json.dumps(res, indent=1))


main()
