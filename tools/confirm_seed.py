#!/usr/bin/env python3
"""Confirm seeded changes produced by sub-agents and install them under /verif/seeded/<id>/.
   tools/confirm_seed.py <PROP> <src dir with patch.diff demo.cpp README.md> <id> [extra demo sources relative to tree ...]
For each: in a scratch worktree of /repo HEAD - demo passes on the clean tree; patch applies; library + tests build;
ctest passes entirely; demo fails on the patched tree."""
import json
import os
import shutil
import subprocess
import sys

WT = "/tmp/wt-confirm"


def sh(cmd, **kw):
    return subprocess.run(cmd, shell=True, capture_output=True, text=True, **kw)


TSAN = "--tsan" in sys.argv
if TSAN:
    sys.argv.remove("--tsan")
TSAN_SRCS = ["src/monitoring/OnlineAverage.cpp", "src/monitoring/OnlineVariance.cpp", "src/monitoring/RateMonitoring.cpp",
             "src/diagnostics/CheckupRate.cpp", "src/diagnostics/CheckupReliability.cpp", "src/diagnostics/Diagnostic.cpp",
             "src/diagnostics/DiagnosticReport.cpp", "src/diagnostics/DiagnosticStatus.cpp"]


def demo(tree, src, out):
    """compile the demonstration against the tree's headers and its built shared library
    (--tsan: with the tree's sources under ThreadSanitizer, run three times)"""
    if TSAN:
        r = sh("clang++-14 -std=c++17 -O1 -g -fsanitize=thread -I%s/include -isystem /usr/include/eigen3 %s %s -o %s -pthread"
               % (tree, src, " ".join(os.path.join(tree, x) for x in TSAN_SRCS), out))
        if r.returncode != 0:
            return None, r.stderr[-2000:]
        worst, tail = 0, ""
        for _ in range(3):
            r = sh("TSAN_OPTIONS=exitcode=66 " + out, timeout=900)
            if r.returncode != 0:
                worst, tail = r.returncode, (r.stdout + r.stderr)[-600:]
        return worst, tail or "PASS x3"
    lib = os.path.join(tree, "_build")
    r = sh("g++ -std=c++17 -O1 -I%s/include -isystem /usr/include/eigen3 %s -o %s -L%s -lromea_core_common -Wl,-rpath,%s -pthread"
           % (tree, src, out, lib, lib))
    if r.returncode != 0:
        return None, r.stderr[-2000:]
    r = sh(out, timeout=600)
    return r.returncode, (r.stdout + r.stderr)[-600:]


def main():
    prop, src, sid = sys.argv[1:4]
    if not os.path.exists(WT):
        r = sh("git -C /repo worktree add -f %s HEAD" % WT)
        assert r.returncode == 0, r.stderr
    sh("git -C %s checkout -q --detach $(git -C /repo rev-parse HEAD) && git -C %s checkout -- ." % (WT, WT))
    patch = os.path.join(src, "patch.diff")
    res = {"property": prop, "id": sid, "repo_head": sh("git -C /repo rev-parse --short HEAD").stdout.strip()}
    sh("cmake -G Ninja -S %s -B %s/_build >/dev/null && cmake --build %s/_build" % (WT, WT, WT))
    rc, out = demo(WT, os.path.join(src, "demo.cpp"), "/tmp/demo_clean")
    res["demo_on_clean"] = {"rc": rc, "tail": out[-200:]}
    r = sh("git -C %s apply --3way %s || git -C %s apply %s" % (WT, patch, WT, patch))
    res["patch_applies"] = r.returncode == 0
    if r.returncode != 0:
        res["apply_error"] = r.stderr[-500:]
        print(json.dumps(res, indent=1))
        return 1
    sh("git -C %s reset -q" % WT)
    new_patch = sh("git -C %s diff" % WT).stdout
    r = sh("cmake -G Ninja -S %s -B %s/_build >/dev/null && cmake --build %s/_build 2>&1 | tail -3" % (WT, WT, WT))
    res["build_ok"] = r.returncode == 0 and "FAILED" not in r.stdout
    r = sh("ctest --test-dir %s/_build -j8 --timeout 900 2>&1 | tail -4" % WT)
    res["ctest"] = r.stdout.strip().splitlines()[-3:] if r.stdout else []
    res["ctest_all_pass"] = "100% tests passed" in r.stdout
    rc2, out2 = demo(WT, os.path.join(src, "demo.cpp"), "/tmp/demo_patched")
    res["demo_on_patched"] = {"rc": rc2, "tail": out2[-200:]}
    sh("git -C %s checkout -- ." % WT)
    ok = rc == 0 and res["build_ok"] and res["ctest_all_pass"] and rc2 not in (0, None)
    res["confirmed"] = ok
    if ok:
        dst = os.path.join("/verif/seeded", sid)
        os.makedirs(dst, exist_ok=True)
        with open(os.path.join(dst, "patch.diff"), "w") as f:
            f.write(new_patch)
        shutil.copy(os.path.join(src, "demo.cpp"), dst)
        if os.path.exists(os.path.join(src, "README.md")):
            shutil.copy(os.path.join(src, "README.md"), dst)
        meta = {"property": prop, "id": sid, "breaks": prop, "needs": "see README.md", "confirmed_at_repo_head": res["repo_head"],
                "ran": ["demo on clean tree: rc 0", "git apply patch.diff; cmake --build; ctest: 100% passed", "demo on patched tree: rc %s" % rc2],
                "detected_by": None}
        json.dump(meta, open(os.path.join(dst, "meta.json"), "w"), indent=1)
    print(json.dumps(res, indent=1))
    return 0 if ok else 1


if __name__ == "__main__":
    sys.exit(main())
