// Conformance driver for EulerAngles.hpp, SmartRotation3D, polar / spherical coordinates (C10 and the
// rotation-derivative clause of C12; spec/Rot.tla).  Angles are lattice angles (cos, sin rational).
//   drive_rot all <out.ndjson>          every lattice angle triple (roll, yaw any; pitch with cos > 0)
//   drive_rot smart <out.ndjson>        SmartRotation3D derivatives on every triple
#include "vh.hpp"
#include <Eigen/Geometry>
#include "romea_core_common/math/EulerAngles.hpp"
#include "romea_core_common/transform/SmartRotation3D.hpp"
#include "romea_core_common/coordinates/PolarCoordinates.hpp"
#include "romea_core_common/coordinates/SphericalCoordinates.hpp"

using namespace romea::core;
using IV = std::vector<long long>;
using IM = std::vector<IV>;

static std::vector<IV> angles()
{
  std::vector<IV> a = {{1, 0, 1}, {0, 1, 1}, {-1, 0, 1}, {0, -1, 1}};
  long long tr[][3] = {{3, 4, 5}, {4, 3, 5}, {7, 24, 25}, {24, 7, 25}};
  for (auto & t : tr) {for (int sx = -1; sx <= 1; sx += 2) {for (int sy = -1; sy <= 1; sy += 2) {a.push_back({sx * t[0], sy * t[1], t[2]});}}}
  return a;
}
static double rad(const IV & a) {return std::atan2((double)a[1], (double)a[0]);}
template<class S> static double tol() {return sizeof(S) == 4 ? 1e-4 : 1e-9;}

template<class S, class M> static IM projMat(const M & m, int n, double D, bool & ok)
{
  IM out(n, IV(n));
  for (int i = 0; i < n; ++i) {for (int j = 0; j < n; ++j) {
      double x = (double)m(i, j) * D, r = std::nearbyint(x);
      if (!(std::fabs(x - r) <= tol<S>() * D)) {ok = false;}
      out[i][j] = (long long)r;}}
  return out;
}
template<class S> static IV projAngle(double theta, long long d, bool & ok)
{
  double c = std::cos(theta) * d, s = std::sin(theta) * d;
  if (!(std::fabs(c - std::nearbyint(c)) <= tol<S>() * d && std::fabs(s - std::nearbyint(s)) <= tol<S>() * d)) {ok = false;}
  return IV{(long long)std::nearbyint(c), (long long)std::nearbyint(s)};
}

template<class S>
static void euler(const IV & r, const IV & p, const IV & y, double turnsR, double turnsY, double qscale, vh::Out & out)
{
  using V3 = Eigen::Matrix<S, 3, 1>;
  double D = (double)(r[2] * p[2] * y[2]);
  V3 ang((S)(rad(r) + turnsR * 2 * M_PI), (S)rad(p), (S)(rad(y) + turnsY * 2 * M_PI));
  bool ok = true;
  Eigen::Matrix<S, 3, 3> Rm = eulerAnglesToRotation3D(ang);
  Eigen::Quaternion<S> q = eulerAnglesToQuaternion(ang);
  Eigen::Matrix<S, 3, 3> Rq = q.toRotationMatrix();
  V3 b = rotation3DToEulerAngles(Rm);
  Eigen::Quaternion<S> qs(q.w() * (S)qscale, q.x() * (S)qscale, q.y() * (S)qscale, q.z() * (S)qscale);     // a non-unit quaternion
  V3 qb = quaternionToEulerAngles(qs);
  IM back = {projAngle<S>(b[0], r[2], ok), projAngle<S>(b[1], p[2], ok), projAngle<S>(b[2], y[2], ok)};
  IM qback = {projAngle<S>(qb[0], r[2], ok), projAngle<S>(qb[1], p[2], ok), projAngle<S>(qb[2], y[2], ok)};
  vh::Ev e("euler");
  e.vec("r", r).vec("p", p).vec("y", y).i("float", sizeof(S) == 4).mat("Rm", projMat<S>(Rm, 3, D, ok)).mat("Rq", projMat<S>(Rq, 3, D, ok))
  .mat("back", back).mat("qback", qback);
  bool hasRs = sizeof(S) == 8;
  IM Rs(3, IV(3, 0));
  if (hasRs) {
    // the helper is a fresh object, or a long-lived one (or a copy of it) re-initialised from a state that shares one or two of
    // the three angles bit for bit with the new ones: what it reports depends on the angles it was last given only
    static SmartRotation3D live;
    static long long count = 0;
    const long long c = count++;
    const double a0 = (double)ang[0], a1 = (double)ang[1], a2 = (double)ang[2];
    // the matrix is read through R(), or - as the FIRST accessor used after (re-)initialisation - column by column through operator*
    const bool mulFirst = (c / 28) % 2 == 1 || c % 5 == 0;
    auto matrixOf = [&](const SmartRotation3D & h) {
        if (!mulFirst) {return Eigen::Matrix3d(h.R());}
        Eigen::Matrix3d m;
        for (int j = 0; j < 3; ++j) {m.col(j) = h * Eigen::Vector3d(Eigen::Vector3d::Unit(j));}
        return m;
      };
    if (c % 4 == 0) {SmartRotation3D sr(a0, a1, a2); Rs = projMat<S>(matrixOf(sr), 3, D, ok);}
    else {
      const int keep = (int)((c / 4) % 7);                      // bit i set: angle i keeps its value across the re-initialisation
      const double b0 = (keep & 1) ? a0 : a0 + 0.37, b1 = (keep & 2) ? a1 : (a1 > 0 ? a1 - 0.21 : a1 + 0.21), b2 = (keep & 4) ? a2 : a2 - 0.53;
      live.init(b0, b1, b2);
      volatile double sink = live.R()(0, 0) + live.dRdAngleAroundXAxis()(1, 1); (void)sink;
      if (c % 4 == 1) {live.init(a0, a1, a2); Rs = projMat<S>(matrixOf(live), 3, D, ok);}
      else if (c % 4 == 2) {live.init(Eigen::Vector3d(a0, a1, a2)); Rs = projMat<S>(matrixOf(live), 3, D, ok);}
      else {SmartRotation3D cp(live); cp.init(a0, a1, a2); Rs = projMat<S>(matrixOf(cp), 3, D, ok);}
    }
  }
  e.b("hasRs", hasRs).mat("Rs", Rs).b("ex", ok);
  out.put(e);
}

static void smart(const IV & r, const IV & p, const IV & y, const IV & T, int ctor, vh::Out & out)
{
  double D = (double)(r[2] * p[2] * y[2]);
  SmartRotation3D sr;
  if (ctor == 0) {sr = SmartRotation3D(rad(r), rad(p), rad(y));} else if (ctor == 1) {sr.init(Eigen::Vector3d(rad(r), rad(p), rad(y)));}
  else {
    // a re-initialised object whose derivatives were already read once
    sr.init(0.3, -0.2, 1.1);
    volatile double sink = sr.dRdAngleAroundXAxis()(1, 1) + sr.dRTdAngles(Eigen::Vector3d(1, 2, 3))(0, 0); (void)sink;
    sr.init(rad(r), rad(p), rad(y));
  }
  bool ok = true;
  Eigen::Vector3d Tv((double)T[0], (double)T[1], (double)T[2]);
  Eigen::Matrix3d dRT = sr.dRTdAngles(Tv);
  Eigen::Vector3d RT = sr * Tv, RT2 = sr.R() * Tv;
  if ((RT - RT2).norm() > 1e-9 * (1 + RT.norm())) {ok = false;}
  out.put(vh::Ev("smart").vec("r", r).vec("p", p).vec("y", y).vec("T", T)
    .mat("dX", projMat<double>(sr.dRdAngleAroundXAxis(), 3, D, ok)).mat("dY", projMat<double>(sr.dRdAngleAroundYAxis(), 3, D, ok))
    .mat("dZ", projMat<double>(sr.dRdAngleAroundZAxis(), 3, D, ok)).mat("dRT", projMat<double>(dRT, 3, D, ok)).b("ex", ok));
}

template<class S>
static void norms(vh::Out & out)
{
  for (int k = -7; k <= 7; ++k) {
    S v = (S)(k * M_PI / 2);
    for (int w = 0; w < 2; ++w) {
      double res = w == 0 ? (double)between0And2Pi(v) : (double)betweenMinusPiAndPi(v);
      double q = res / (M_PI / 2), rq = std::nearbyint(q);
      out.put(vh::Ev("norm").str("which", w == 0 ? "0_2pi" : "mpi_pi").i("k", k).i("kq", (long long)rq).b("ex", std::fabs(q - rq) <= (sizeof(S) == 4 ? 1e-5 : 1e-9))
        .i("float", sizeof(S) == 4));
    }
  }
  for (auto & a : angles()) {
    for (int m = -1; m <= 1; ++m) {
      double th = rad(a) + m * 2 * M_PI;
      if (std::fabs(th) >= 4 * M_PI) {continue;}
      for (int w = 0; w < 2; ++w) {
        double res = w == 0 ? (double)between0And2Pi((S)th) : (double)betweenMinusPiAndPi((S)th);
        bool ok = true;
        IV back = projAngle<S>(res, a[2], ok);
        bool inr = w == 0 ? (res >= 0 && res <= 2 * M_PI + 1e-6) : (res >= -M_PI - 1e-6 && res <= M_PI + 1e-6);
        out.put(vh::Ev("normlat").str("which", w == 0 ? "0_2pi" : "mpi_pi").vec("a", a).i("m", m).vec("back", back).b("ex", ok).b("inr", inr));
      }
    }
  }
}

template<class S>
static void planar(vh::Out & out)
{
  for (auto & a : angles()) {
    bool ok = true;
    Eigen::Matrix<S, 2, 2> Rm = eulerAngleToRotation2D((S)rad(a));
    S th = rotation2DToEulerAngle(Rm);
    IV back = projAngle<S>(th, a[2], ok);
    out.put(vh::Ev("rot2").vec("a", a).mat("Rm", projMat<S>(Rm, 2, (double)a[2], ok)).vec("back", back).b("ex", ok));
    for (long long r : {1LL, 5LL, 1000LL}) {
      bool okp = true;
      S range = (S)(r * a[2]), az = (S)rad(a);                                   // range r*d so that x, y are integers
      PolarCoordinates<S> pc(range, az);
      double x = PolarTransform::x(pc), y = PolarTransform::y(pc);
      CartesianCoordinates2<S> c((S)x, (S)y);
      auto pol = toPolar(c);
      IV xy; for (double v : {x, y}) {double rv = std::nearbyint(v); if (std::fabs(v - rv) > tol<S>() * range) {okp = false;} xy.push_back((long long)rv);}
      double br = (double)pol.getRange() / a[2], brr = std::nearbyint(br);
      if (std::fabs(br - brr) > tol<S>() * r) {okp = false;}
      out.put(vh::Ev("polar").vec("a", a).i("r", r).vec("xy", xy).i("backr", (long long)brr).vec("backa", projAngle<S>(pol.getAzimut(), a[2], okp)).b("ex", okp));
    }
  }
  // spherical: azimuth any lattice angle, elevation (polar angle from z) a lattice angle with sin >= 0
  for (auto & az : angles()) {
    for (auto & el : angles()) {
      if (el[1] < 0) {continue;}
      for (long long r : {1LL, 40LL}) {
        bool ok = true;
        double D = (double)(az[2] * el[2]);
        S range = (S)(r * D), A = (S)rad(az), E = (S)rad(el);
        SphericalCoordinates<S> sc(range, A, E);
        double x = SphericalTransform::x(sc), y = SphericalTransform::y(sc), z = SphericalTransform::z(sc);
        CartesianCoordinates3<S> c((S)x, (S)y, (S)z);
        IV xyz; for (double v : {x, y, z}) {double rv = std::nearbyint(v); if (std::fabs(v - rv) > tol<S>() * range) {ok = false;} xyz.push_back((long long)rv);}
        double br = (double)SphericalTransform::range(c) / D, brr = std::nearbyint(br);
        if (std::fabs(br - brr) > tol<S>() * r) {ok = false;}
        IV bel = projAngle<S>(SphericalTransform::elevation(c), el[2], ok);
        bool okaz = true;
        IV baz = projAngle<S>(SphericalTransform::azimut(c), az[2], okaz);
        if (el[1] != 0 && !okaz) {ok = false;}
        out.put(vh::Ev("spher").vec("az", az).vec("el", el).i("r", r).vec("xyz", xyz).i("backr", (long long)brr).vec("backel", bel).vec("backaz", baz).b("ex", ok));
      }
    }
  }
}

// derivative matrices at generic angles against the closed forms (exact, and as coded with the identity leftover)
static void smartgen(vh::Rng & r, vh::Out & out)
{
  auto u = [&]() {return (double)r.range(-1000000, 1000000) / 1000000.0;};
  auto units = [](double v) {double x = std::fabs(v) * 1e12; return x < 2e9 ? (long long)std::llround(x) : 2000000000LL;};
  double a = u() * 3.1, b = u() * (M_PI / 2 - 0.05), c = u() * 3.1;
  if (r.coin(1, 6)) {a = 0;} if (r.coin(1, 6)) {b = 0;} if (r.coin(1, 6)) {c = 0;}
  // one long-lived object re-initialised for every sample (its derivatives were read by the previous sample), or a fresh one
  static SmartRotation3D reused;
  SmartRotation3D fresh;
  const bool useFresh = r.coin(1, 3);
  if (useFresh) {fresh = SmartRotation3D(a, b, c);} else if (r.coin()) {reused.init(a, b, c);} else {reused.init(Eigen::Vector3d(a, b, c));}
  SmartRotation3D & sr = useFresh ? fresh : reused;
  auto Rx = [](double t) {Eigen::Matrix3d m; m << 1, 0, 0, 0, std::cos(t), -std::sin(t), 0, std::sin(t), std::cos(t); return m;};
  auto Ry = [](double t) {Eigen::Matrix3d m; m << std::cos(t), 0, std::sin(t), 0, 1, 0, -std::sin(t), 0, std::cos(t); return m;};
  auto Rz = [](double t) {Eigen::Matrix3d m; m << std::cos(t), -std::sin(t), 0, std::sin(t), std::cos(t), 0, 0, 0, 1; return m;};
  auto dRx = [](double t) {Eigen::Matrix3d m; m << 0, 0, 0, 0, -std::sin(t), -std::cos(t), 0, std::cos(t), -std::sin(t); return m;};
  auto dRy = [](double t) {Eigen::Matrix3d m; m << -std::sin(t), 0, std::cos(t), 0, 0, 0, -std::cos(t), 0, -std::sin(t); return m;};
  auto dRz = [](double t) {Eigen::Matrix3d m; m << -std::sin(t), -std::cos(t), 0, std::cos(t), -std::sin(t), 0, 0, 0, 0; return m;};
  Eigen::Matrix3d E0 = Eigen::Matrix3d::Zero(), E1 = E0, E2 = E0; E0(0, 0) = 1; E1(1, 1) = 1; E2(2, 2) = 1;
  Eigen::Matrix3d ex[3] = {Rz(c) * Ry(b) * dRx(a), Rz(c) * dRy(b) * Rx(a), dRz(c) * Ry(b) * Rx(a)};
  Eigen::Matrix3d co[3] = {Rz(c) * Ry(b) * (dRx(a) + E0), Rz(c) * (dRy(b) + E1) * Rx(a), (dRz(c) + E2) * Ry(b) * Rx(a)};
  const Eigen::Matrix3d gotM[3] = {sr.dRdAngleAroundXAxis(), sr.dRdAngleAroundYAxis(), sr.dRdAngleAroundZAxis()};
  const Eigen::Matrix3d * got[3] = {&gotM[0], &gotM[1], &gotM[2]};
  Eigen::Vector3d T(u() * 10, u() * 10, u() * 10);
  Eigen::Matrix3d dRT = sr.dRTdAngles(T);
  double re = 0, rc = 0;
  for (int k = 0; k < 3; ++k) {
    re = std::max({re, (*got[k] - ex[k]).cwiseAbs().maxCoeff(), (dRT.col(k) - ex[k] * T).cwiseAbs().maxCoeff() / 10});
    rc = std::max({rc, (*got[k] - co[k]).cwiseAbs().maxCoeff(), (dRT.col(k) - co[k] * T).cwiseAbs().maxCoeff() / 10});
  }
  out.put(vh::Ev("smartgen").i("resExact", units(re)).i("resCoded", units(rc)));
}

// generic (non-lattice) inputs: residuals of the consistency relations in units of 1e-12
template<class S>
static void generic(vh::Rng & r, vh::Out & out)
{
  using V3 = Eigen::Matrix<S, 3, 1>;
  using M3 = Eigen::Matrix<S, 3, 3>;
  auto u = [&]() {return (double)r.range(-1000000, 1000000) / 1000000.0;};
  auto units = [](double v) {double x = std::fabs(v) * 1e12; return x < 2e9 ? (long long)std::llround(x) : 2000000000LL;};
  auto angDiff = [](double a, double b) {return std::fabs(std::remainder(a - b, 2 * M_PI));};
  std::vector<long long> res;
  bool inRange = true;
  double roll = u() * 2 * M_PI * 0.999, pitch = u() * (M_PI / 2 - 1e-3), yaw = u() * 2 * M_PI * 0.999;
  if (r.coin(1, 6)) {pitch = (r.coin() ? 1 : -1) * (M_PI / 2 - 1e-3);}                      // the edge of the quantified pitch range
  else if (r.coin(1, 4)) {
    // small angles (increments, milliradians and below): each angle has its own magnitude between 1e-7 and 0.1 rad, or is zero
    auto small = [&]() {return r.coin(1, 5) ? 0.0 : (r.coin() ? 1 : -1) * std::pow(10.0, -7 + 6 * std::fabs(u()));};
    roll = small(); pitch = small(); yaw = small();
  }
  V3 ang((S)roll, (S)pitch, (S)yaw);
  roll = (double)ang[0]; pitch = (double)ang[1]; yaw = (double)ang[2];
  Eigen::Matrix3d ref;
  {
    double cr = std::cos(roll), sr = std::sin(roll), cp = std::cos(pitch), sp = std::sin(pitch), cy = std::cos(yaw), sy = std::sin(yaw);
    ref << cy * cp, cy * sp * sr - sy * cr, cy * sp * cr + sy * sr,
      sy * cp, sy * sp * sr + cy * cr, sy * sp * cr - cy * sr,
      -sp, cp * sr, cp * cr;
  }
  M3 Rm = eulerAnglesToRotation3D(ang);
  Eigen::Quaternion<S> q = eulerAnglesToQuaternion(ang);
  res.push_back(units((Rm.template cast<double>() - ref).cwiseAbs().maxCoeff()));                         // closed form Rz Ry Rx
  res.push_back(units((q.toRotationMatrix().template cast<double>() - ref).cwiseAbs().maxCoeff()));      // quaternion path
  res.push_back(units((Rm * Rm.transpose() - M3::Identity()).cwiseAbs().maxCoeff()));                    // orthogonal
  res.push_back(units((double)Rm.determinant() - 1));                                                     // proper
  if (sizeof(S) == 8) {SmartRotation3D sr(roll, pitch, yaw); res.push_back(units((sr.R() - ref).cwiseAbs().maxCoeff()));}
  V3 b = rotation3DToEulerAngles(Rm);
  // near the edge of the pitch range asin is ill conditioned: the recovered angles are compared through the rotation they describe
  M3 Rb = eulerAnglesToRotation3D(b);
  // asin amplifies the rounding of R(2,0) by 1 / cos(pitch) (up to 1000 at the edge of the range): scale the tolerance with it
  const double edge = std::max(1.0, 1.0 / std::cos(pitch) / 100.0);
  res.push_back(units((Rb - Rm).cwiseAbs().maxCoeff() / edge));
  if (std::fabs(pitch) < M_PI / 2 - 0.05) {
    res.push_back(units(angDiff(b[0], roll))); res.push_back(units(angDiff(b[1], pitch))); res.push_back(units(angDiff(b[2], yaw)));
  }
  double qs = std::exp(u() * 6);                                                                           // non-unit quaternion, norm in [2.5e-3, 400]
  Eigen::Quaternion<S> qq(q.w() * (S)qs, q.x() * (S)qs, q.y() * (S)qs, q.z() * (S)qs);
  V3 qb = quaternionToEulerAngles(qq);
  res.push_back(units((eulerAnglesToRotation3D(qb) - Rm).cwiseAbs().maxCoeff() / edge));
  // any rotation -> angles -> rotation (|R(2,0)| <= 1 - 1e-6)
  Eigen::Quaterniond rq(u(), u(), u(), u());
  if (rq.norm() > 1e-3) {
    Eigen::Matrix<S, 3, 3> Rr = rq.normalized().toRotationMatrix().template cast<S>();
    if (std::fabs((double)Rr(2, 0)) <= 1 - 1e-6) {
      // condition number of asin near +-1 amplifies rounding by 1/sqrt(1 - r20^2): scale the residual accordingly
      double amp = 1.0 / std::sqrt(std::max(1e-12, 1 - (double)Rr(2, 0) * Rr(2, 0)));
      res.push_back(units((eulerAnglesToRotation3D(rotation3DToEulerAngles(Rr)) - Rr).cwiseAbs().maxCoeff() / std::max(1.0, amp)));
    }
  }
  // normalisers on (-4 pi, 4 pi)
  double th = u() * 4 * M_PI * 0.999;
  S thS = (S)th; th = (double)thS;
  double n1 = (double)between0And2Pi(thS), n2 = (double)betweenMinusPiAndPi(thS);
  double ntol = sizeof(S) == 4 ? 1e-5 : 1e-9;
  res.push_back(units(angDiff(n1, th)) / (sizeof(S) == 4 ? 1 : 1)); res.push_back(units(angDiff(n2, th)));
  if (!(n1 >= -ntol && n1 <= 2 * M_PI + ntol && n2 >= -M_PI - ntol && n2 <= M_PI + ntol)) {inRange = false;}
  // planar pair
  S a2 = (S)(u() * 2 * M_PI);
  res.push_back(units(angDiff((double)rotation2DToEulerAngle(eulerAngleToRotation2D(a2)), (double)a2)));
  // polar / spherical round trips, relative to the norm (norm in [1e-6, 1e6])
  double nrm = std::exp(u() * 13.8);
  {
    double az = u() * M_PI;
    CartesianCoordinates2<S> c((S)(nrm * std::cos(az)), (S)(nrm * std::sin(az)));
    auto pol = toPolar(c);
    double x = PolarTransform::x(pol), y = PolarTransform::y(pol);
    res.push_back(units(std::hypot(x - (double)c.x(), y - (double)c.y()) / nrm));
    double el = 0.05 + (u() + 1) / 2 * (M_PI - 0.1);              // away from the polar axis, where acos(z / r) loses half its digits
    CartesianCoordinates3<S> c3((S)(nrm * std::cos(az) * std::sin(el)), (S)(nrm * std::sin(az) * std::sin(el)), (S)(nrm * std::cos(el)));
    // (toSpherical() does not compile for float: it mixes a double range with float coordinates)
    SphericalCoordinates<S> sp(SphericalTransform::range(c3), SphericalTransform::azimut(c3), SphericalTransform::elevation(c3));
    double x3 = SphericalTransform::x(sp), y3 = SphericalTransform::y(sp), z3 = SphericalTransform::z(sp);
    res.push_back(units(std::sqrt((x3 - c3.x()) * (x3 - c3.x()) + (y3 - c3.y()) * (y3 - c3.y()) + (z3 - c3.z()) * (z3 - c3.z())) / nrm));
    // every entry point of the same maps: scalar overloads, homogeneous points (unit last coordinate), whole-point conversions
    {
      HomogeneousCoordinates2<S> h2(c.x(), c.y());
      double rr = std::hypot((double)c.x(), (double)c.y()), aa = std::atan2((double)c.y(), (double)c.x());
      res.push_back(units(std::fabs((double)PolarTransform::range(h2) - rr) / nrm));
      res.push_back(units(std::fabs((double)PolarTransform::range(c.x(), c.y()) - rr) / nrm));
      res.push_back(units(std::fabs((double)PolarTransform::range(c) - rr) / nrm));
      res.push_back(units(angDiff((double)PolarTransform::azimut(h2), aa)));
      res.push_back(units(angDiff((double)PolarTransform::azimut(c.x(), c.y()), aa)));
      PolarCoordinates<S> ph = toHomogeneous(h2);                                   // (the library's name for homogeneous -> polar)
      HomogeneousCoordinates2<S> hb = toHomogeneous(ph);
      CartesianCoordinates2<S> cb = toCartesian(pol);
      res.push_back(units(std::hypot((double)hb[0] - (double)c.x(), (double)hb[1] - (double)c.y()) / nrm));
      res.push_back(units(std::fabs((double)hb[2] - 1)));
      res.push_back(units(std::hypot((double)cb.x() - (double)c.x(), (double)cb.y() - (double)c.y()) / nrm));
      res.push_back(units(std::hypot((double)PolarTransform::x(pol.getRange(), pol.getAzimut()) - (double)c.x(),
        (double)PolarTransform::y(pol.getRange(), pol.getAzimut()) - (double)c.y()) / nrm));
      HomogeneousCoordinates3<S> h3(c3.x(), c3.y(), c3.z());
      double r3 = std::sqrt((double)c3.x() * c3.x() + (double)c3.y() * c3.y() + (double)c3.z() * c3.z());
      res.push_back(units(std::fabs((double)SphericalTransform::range(h3) - r3) / nrm));
      res.push_back(units(std::fabs((double)SphericalTransform::range(c3.x(), c3.y(), c3.z()) - r3) / nrm));
      res.push_back(units(angDiff((double)SphericalTransform::azimut(h3), (double)SphericalTransform::azimut(c3))));
      res.push_back(units(angDiff((double)SphericalTransform::azimut(c3.x(), c3.y()), (double)SphericalTransform::azimut(c3))));
      res.push_back(units(std::fabs((double)SphericalTransform::elevation(h3) - (double)SphericalTransform::elevation(c3))));
      res.push_back(units(std::fabs((double)SphericalTransform::elevation(c3.x(), c3.y(), c3.z()) - (double)SphericalTransform::elevation(c3))));
      CartesianCoordinates3<S> cb3 = toCartesian(sp);
      HomogeneousCoordinates3<S> hb3 = toHomogeneous(sp);
      res.push_back(units(std::sqrt(std::pow((double)cb3.x() - c3.x(), 2) + std::pow((double)cb3.y() - c3.y(), 2) + std::pow((double)cb3.z() - c3.z(), 2)) / nrm));
      res.push_back(units(std::sqrt(std::pow((double)hb3[0] - c3.x(), 2) + std::pow((double)hb3[1] - c3.y(), 2) + std::pow((double)hb3[2] - c3.z(), 2)) / nrm));
      res.push_back(units(std::fabs((double)hb3[3] - 1)));
    }
  }
  out.put(vh::Ev("generic").i("float", sizeof(S) == 4).vec("res", res).b("inRange", inRange));
}

int main(int argc, char ** argv)
{
  if (argc == 5 && std::string(argv[1]) == "smartgen") {
    vh::Rng r(std::strtoull(argv[2], nullptr, 10));
    int n = std::atoi(argv[3]);
    vh::Out out(argv[4]);
    for (int k = 0; k < n; ++k) {if (k % 500 == 0) {out.put(vh::Ev("Reset"));} smartgen(r, out);}
    std::printf("%lld\n", out.lines);
    return 0;
  }
  if (argc == 5 && std::string(argv[1]) == "generic") {
    vh::Rng r(std::strtoull(argv[2], nullptr, 10));
    int n = std::atoi(argv[3]);
    vh::Out out(argv[4]);
    for (int k = 0; k < n; ++k) {if (k % 500 == 0) {out.put(vh::Ev("Reset"));} if (k % 3 == 2) {generic<float>(r, out);} else {generic<double>(r, out);}}
    std::printf("%lld\n", out.lines);
    return 0;
  }
  std::string mode = argc > 1 ? argv[1] : "";
  if (argc != 3) {std::fprintf(stderr, "usage: drive_rot all|smart out\n"); return 3;}
  vh::Out out(argv[2]);
  out.put(vh::Ev("Reset"));
  auto A = angles();
  vh::Rng rng(7);
  long long n = 0;
  for (auto & r : A) {for (auto & p : A) {
      if (p[0] <= 0) {continue;}
      for (auto & y : A) {
        if (mode == "all") {
          double tr = (double)((n % 3) - 1), ty = (double)(((n / 3) % 3) - 1);          // roll, yaw in (-2 pi, 2 pi)
          if (std::fabs(rad(r) + tr * 2 * M_PI) >= 2 * M_PI) {tr = 0;}
          if (std::fabs(rad(y) + ty * 2 * M_PI) >= 2 * M_PI) {ty = 0;}
          double qs = (n % 4 == 0) ? 1.0 : (n % 4 == 1) ? 2.5 : (n % 4 == 2) ? 0.01 : 300.0;
          euler<double>(r, p, y, tr, ty, qs, out);
          if (n % 2 == 0) {euler<float>(r, p, y, 0, 0, qs, out);}
        } else {
          smart(r, p, y, IV{rng.range(-9, 9), rng.range(-9, 9), rng.range(-9, 9)}, (int)(n % 3), out);
        }
        if (++n % 200 == 0) {out.put(vh::Ev("Reset"));}
      }}}
  if (mode == "all") {
    out.put(vh::Ev("Reset"));
    norms<double>(out); norms<float>(out);
    planar<double>(out); planar<float>(out);
  }
  std::printf("%lld\n", out.lines);
  return 0;
}
