// Conformance driver for RateMonitoring, CheckupEqualToRate, CheckupGreaterThanRate (C17;
// spec/RateMonitor.tla, spec/RateCheckup.tla).  Time in integer ticks, T ticks per second.
//   drive_rate script <script.txt> <out.ndjson>
//   drive_rate random <seed> <nexec> <out.ndjson>
#include "vh.hpp"
#include <memory>
#include "romea_core_common/monitoring/RateMonitoring.hpp"
#include "romea_core_common/diagnostic/CheckupRate.hpp"

using namespace romea::core;
// the monitored quantity's name changes from one object to the next (none is a substring of another): a message must name its own
static const std::vector<std::string> NAMES = {"thing", "speed", "voltage", "alpha"};
static size_t g_nextName = 0;

static std::string verdictOf(const std::string & msg, bool & named, const std::string & NAME)
{
  static const std::pair<const char *, const char *> ends[] = {
    {" is too low.", "low"}, {" is too high.", "high"}, {" is OK.", "ok"}, {" timeout.", "timeout"}};
  named = false;
  if (msg.empty()) {return "none";}
  if (msg.find("no data received") != std::string::npos) {named = msg.find(NAME) != std::string::npos; return "nodata";}
  for (auto & e : ends) {
    std::string end = e.first;
    if (msg.size() >= end.size() && msg.compare(msg.size() - end.size(), end.size(), end) == 0) {
      named = msg.find(NAME) != std::string::npos;        // the message names the checked quantity
      return e.second;
    }
  }
  return "other";
}

struct Obj
{
  std::string kind;
  long long rate8, eps8, T, tickNs, W;
  long long now = 0, last = 0;       // ticks
  long long baseNs = 0;              // absolute offset of the clock (e.g. stamps counted from the Unix epoch)
  std::unique_ptr<RateMonitoring> mon;
  std::unique_ptr<CheckupEqualToRate> eq;
  std::unique_ptr<CheckupGreaterThanRate> gt;
  std::string NAME = NAMES[g_nextName++ % NAMES.size()];
  Obj(const std::string & k, long long r8, long long e8, long long t)
  : kind(k), rate8(r8), eps8(e8), T(t), tickNs(1000000000LL / t)
  {
    W = std::min(64LL, std::max(4LL, r8 / 4));     // the property's formula: clamp(2 * expected rate, 4, 64)
    if (k == "mon") {
      if (r8 % 2) {mon.reset(new RateMonitoring()); mon->initialize(r8 / 8.0);} else {mon.reset(new RateMonitoring(r8 / 8.0));}     // both construction paths
    }
    if (k == "eq") {eq.reset(new CheckupEqualToRate(NAME, r8 / 8.0, e8 / 8.0));}
    if (k == "gt") {gt.reset(new CheckupGreaterThanRate(NAME, r8 / 8.0, e8 / 8.0));}
  }
  std::string reset() const
  {
    return vh::Ev("Reset").str("kind", kind).i("rate8", rate8).i("eps8", eps8).i("T", T).done();
  }
  long long spanOf(double rate, bool & exact) const
  {
    exact = true;
    if (rate == 0) {return 0;}
    if (!(rate > 0)) {exact = false; return -1;}
    return vh::proj(double(W) * T / rate, exact, 1e-9);
  }
  void observe(vh::Ev & e) const
  {
    DiagnosticReport r = eq ? eq->getReport() : gt->getReport();
    bool named = false;
    const Diagnostic & d = r.diagnostics.front();
    e.i("status", (int)d.status).str("verdict", verdictOf(d.message, named, NAME));
    e.b("named", named && r.diagnostics.size() == 1 && r.info.size() == 1 && r.info.begin()->first.find(NAME) == 0);
    const std::string & info = r.info.begin()->second;
    bool has = !info.empty();
    long long vs = -1;
    if (has) {
      char * end = nullptr;
      double x = std::strtod(info.c_str(), &end);
      if (*end == 0 && x == 0) {vs = 0;} else if (*end == 0 && x > 0) {
        double s = std::nearbyint(double(W) * T / x);
        vs = s < 2.0e9 ? (long long)s : -1;
      }
    }
    e.b("has", has).i("valueSpan", vs);
  }
  std::string first() const {vh::Ev e("observe"); observe(e); return e.done();}
  std::string stamp(long long dt)
  {
    now = last + dt; last = now;
    Duration d = durationFromNanoSecond(baseNs + now * tickNs);
    vh::Ev e("stamp");
    e.i("dt", dt);
    if (mon) {
      bool ex = false, ex2 = false;
      long long s = spanOf(mon->update(d), ex), s2 = spanOf(mon->getRate(), ex2);
      e.i("span", s).i("span2", s2).b("exact", ex && ex2);
    } else {
      DiagnosticStatus st = eq ? eq->evaluate(d) : gt->evaluate(d);
      e.i("ret", (int)st);
      observe(e);
    }
    return e.done();
  }
  std::string heartbeat(long long gap)
  {
    Duration d = durationFromNanoSecond(baseNs + (last + gap) * tickNs);
    vh::Ev e("hb");
    e.i("gap", gap);
    if (mon) {
      bool to = mon->timeout(d), ex = false;
      long long s2 = spanOf(mon->getRate(), ex);
      e.b("timeout", to).i("span2", s2).b("exact", ex);
    } else {
      bool ok = eq ? eq->heartBeatCallback(d) : gt->heartBeatCallback(d);
      e.b("timeout", !ok);
      observe(e);
    }
    return e.done();
  }
};

// script:  R kind rate8 eps8 T | S dt | H gap | X dts.. ; gaps..
static void runScript(const char * path, vh::Out & out)
{
  auto sc = vh::readScript(path);
  size_t at = 0;
  while (at < sc.size()) {
    const auto h = sc[at];
    if (h[0] != "R") {std::fprintf(stderr, "bad script line %zu\n", at); std::exit(3);}
    size_t end = at + 1;
    std::vector<std::pair<char, long long>> acts;
    while (end < sc.size() && sc[end][0] != "R") {
      if (sc[end][0] == "X") {
        bool g = false;
        for (size_t k = 1; k < sc[end].size(); ++k) {
          if (sc[end][k] == ";") {g = true; continue;}
          acts.push_back({g ? 'H' : 'S', vh::I(sc[end][k])});
        }
      }
      ++end;
    }
    if (acts.empty()) {acts.push_back({'-', 0});}
    // the check-ups hold mutexes and cannot be copied: every expansion re-executes the path
    for (auto & act : acts) {
      Obj o(h[1], vh::I(h[2]), vh::I(h[3]), vh::I(h[4]));
      out.puts(o.reset());
      if (!o.mon) {out.puts(o.first());}
      for (size_t k = at + 1; k < end; ++k) {
        if (sc[k][0] == "S") {out.puts(o.stamp(vh::I(sc[k][1])));}
        if (sc[k][0] == "H") {out.puts(o.heartbeat(vh::I(sc[k][1])));}
      }
      if (act.first == 'S') {out.puts(o.stamp(act.second));}
      if (act.first == 'H') {out.puts(o.heartbeat(act.second));}
    }
    at = end;
  }
}

static void randomExec(vh::Rng & r, vh::Out & out)
{
  static const std::vector<std::string> kinds = {"mon", "eq", "gt"};
  std::string kind = r.pick(kinds);
  bool micro = r.coin(1, 4);                       // tick = 1 us (periods 1 us..2 ms) or 1 ms (1 ms..10 s)
  long long T = micro ? 1000000 : 1000;
  long long rate8 = r.coin(1, 3) ? r.range(4, 40) : r.range(4, 1600);       // 0.5 .. 200 Hz
  long long eps8 = r.coin(1, 4) ? 0 : r.range(0, rate8 / 2);
  Obj o(kind, rate8, eps8, T);
  // one execution in three uses epoch-sized absolute stamps (1.7e18 ns): only differences of stamps matter to the property
  if (r.coin(1, 3)) {o.baseNs = 1700000000LL * 1000000000LL + r.range(0, 999999999);}
  out.puts(o.reset());
  if (!o.mon) {out.puts(o.first());}
  long long nominal = std::max(1LL, std::min(micro ? 2000LL : 10000LL, (8 * T) / rate8));   // expected period in ticks
  long long maxp = micro ? 2000 : 10000;
  int len = (int)r.range(1, 500);
  if (r.coin(1, 3)) {len = (int)r.range(1, 3 * (int)o.W);}
  bool started = false;
  int phase = 0, left = 0;
  for (int s = 0; s < len; ++s) {
    if (left == 0) {phase = (int)r.range(0, 4); left = (int)r.range(1, 2 * (int)o.W + 2);}
    --left;
    if (r.coin(1, 5)) {                                                  // heartbeat, on either side of 0.5 s
      long long gap;
      int g = (int)r.range(0, 5);
      if (g == 0) {gap = T / 2;} else if (g == 1) {gap = T / 2 + 1;} else if (g == 2) {gap = r.range(0, T / 2);}
      else if (g == 3) {gap = r.range(T / 2 + 1, 20 * T);} else if (g == 4) {gap = -r.range(0, 5);} else {gap = r.range(0, 2 * nominal);}
      out.puts(o.heartbeat(gap));
      continue;
    }
    long long dt;
    const bool firstStamp = !started;
    if (!started) {dt = r.coin(1, 4) ? 0 : r.coin() ? r.range(0, 1000) : r.range(0, 1000000); started = true;}   // first stamp: distance to time 0 (sometimes exactly 0)
    else if (phase == 0) {dt = nominal;}                                                        // steady
    else if (phase == 1) {dt = std::max(1LL, nominal + r.range(-nominal / 4, nominal / 4));}    // jittered
    else if (phase == 2) {dt = r.range(1, std::max(1LL, nominal / 8));}                         // burst
    else if (phase == 3) {dt = r.range(nominal, maxp);}                                         // slow / silence
    else {dt = r.range(1, maxp);}
    dt = std::min(dt, started && s > 0 ? maxp : 1000000LL);
    out.puts(o.stamp(dt));
    if (firstStamp && r.coin(1, 3)) {out.puts(o.heartbeat(r.coin() ? r.range(T / 2 + 1, 3 * T) : r.range(0, T)));}      // silence right after the first stamp
    if (o.mon && r.coin(1, 30)) {
      std::unique_ptr<RateMonitoring> c(new RateMonitoring(*o.mon)); o.mon = std::move(c);                  // continue on a copy
      out.puts(o.heartbeat(0));                                                                           // and observe it at once: same rate, no timeout
    }
  }
}

int main(int argc, char ** argv)
{
  std::string mode = argc > 1 ? argv[1] : "";
  if (mode == "script" && argc == 4) {
    vh::Out out(argv[3]);
    runScript(argv[2], out);
    std::printf("%lld\n", out.lines);
    return 0;
  }
  if (mode == "random" && argc == 5) {
    vh::Rng r(std::strtoull(argv[2], nullptr, 10));
    int nexec = std::atoi(argv[3]);
    vh::Out out(argv[4]);
    for (int k = 0; k < nexec; ++k) {randomExec(r, out);}
    std::printf("%lld\n", out.lines);
    return 0;
  }
  std::fprintf(stderr, "usage: see header comment\n");
  return 3;
}
