// Conformance driver for pose / twist reductions, covariance embedding, rigid transformation of a 3D pose and
// uncertainty ellipses (C11 and the pose-covariance clause of C12; spec/PoseCov.tla).  Exact lattice inputs.
//   drive_pose random <seed> <n> <out.ndjson>
#include "vh.hpp"
#include <Eigen/Geometry>
#include "romea_core_common/math/Matrix.hpp"
#include "romea_core_common/geometry/Pose3D.hpp"
#include "romea_core_common/geometry/Pose2D.hpp"
#include "romea_core_common/geometry/Position2D.hpp"
#include "romea_core_common/geometry/Position3D.hpp"
#include "romea_core_common/geometry/Twist3D.hpp"
#include "romea_core_common/geometry/Twist2D.hpp"
#include "romea_core_common/geometry/PoseAndTwist3D.hpp"
#include "romea_core_common/geometry/PoseAndTwist2D.hpp"
#include "romea_core_common/geometry/Ellipse.hpp"

using namespace romea::core;
using IV = std::vector<long long>;
using IM = std::vector<IV>;

template<class M> static IM pm(const M & m, int n, double scale, double tol, bool & ok)
{
  IM out(n, IV(n));
  for (int i = 0; i < n; ++i) {for (int j = 0; j < n; ++j) {
      double x = (double)m(i, j) * scale, r = std::nearbyint(x);
      if (!(std::fabs(x - r) <= tol * std::max(1.0, std::fabs(r)))) {ok = false;}
      out[i][j] = std::fabs(r) < 2e9 ? (long long)r : 0;}}
  return out;
}
static Eigen::Matrix6d label(vh::Rng & r, bool sym, bool psd, IM & outM)
{
  Eigen::Matrix6d M;
  if (psd) {
    Eigen::Matrix<double, 6, 6> G;
    int rank = (int)r.range(1, 6);
    for (int i = 0; i < 6; ++i) {for (int j = 0; j < 6; ++j) {G(i, j) = j < rank ? (double)r.range(-3, 3) : 0.0;}}
    M = G * G.transpose();
  } else {
    for (int i = 0; i < 6; ++i) {for (int j = 0; j < 6; ++j) {M(i, j) = sym ? (double)(10 * std::min(i, j) + std::max(i, j) + 11) : (double)(10 * i + j + 11 + r.range(0, 3) * 100);}}
  }
  bool ok = true; outM = pm(M, 6, 1, 1e-12, ok);
  return M;
}
static int quarterOf(double angle, bool & ok)
{
  double q = angle / (M_PI / 2), rq = std::nearbyint(q);
  if (std::fabs(q - rq) > 1e-9) {ok = false;}
  return (int)(((long long)rq % 4 + 4) % 4);
}
static Eigen::Affine3d transform(int q, const IV & T)
{
  Eigen::Affine3d a = Eigen::Affine3d::Identity();
  Eigen::Matrix3d R = Eigen::Matrix3d::Zero();
  int c[] = {1, 0, -1, 0}, s[] = {0, 1, 0, -1};
  R << c[q], -s[q], 0, s[q], c[q], 0, 0, 0, 1;          // exact signed permutation
  a.linear() = R;
  a.translation() = Eigen::Vector3d((double)T[0], (double)T[1], (double)T[2]);
  return a;
}

static void one(vh::Rng & r, vh::Out & out)
{
  int what = (int)r.range(0, 5);
  if (what == 0) {
    // reductions of pose, twist, pose-and-twist
    IV mean6; for (int i = 0; i < 6; ++i) {mean6.push_back(r.range(-10000, 10000));}
    IM M6; Eigen::Matrix6d M = label(r, r.coin(), r.coin(1, 3), M6);
    int kind = (int)r.range(0, 2);
    Eigen::Vector3d a((double)mean6[0], (double)mean6[1], (double)mean6[2]), b((double)mean6[3], (double)mean6[4], (double)mean6[5]);
    double m3[3]; Eigen::Matrix3d C3;
    if (kind == 0) {
      Pose3D p; p.position = a; p.orientation = b; p.covariance = M;
      Pose2D p2 = r.coin() ? toPose2D(p) : [&] {Pose2D x; toPose2D(p, x); return x;} ();
      m3[0] = p2.position.x(); m3[1] = p2.position.y(); m3[2] = p2.yaw; C3 = p2.covariance;
    } else if (kind == 1) {
      Twist3D t; t.linearSpeeds = a; t.angularSpeeds = b; t.covariance = M;
      Twist2D t2 = toTwist2D(t);
      m3[0] = t2.linearSpeeds.x(); m3[1] = t2.linearSpeeds.y(); m3[2] = t2.angularSpeed; C3 = t2.covariance;
    } else {
      PoseAndTwist3D pt; pt.pose.position = a; pt.pose.orientation = b; pt.pose.covariance = M;
      pt.twist.linearSpeeds = b; pt.twist.angularSpeeds = a; pt.twist.covariance = M.transpose();
      PoseAndTwist2D pt2 = toPoseAndTwist2D(pt);
      bool okt = pt2.twist.linearSpeeds.x() == b.x() && pt2.twist.linearSpeeds.y() == b.y() && pt2.twist.angularSpeed == a.z() &&
        pt2.twist.covariance == toSe2Covariance(Eigen::Matrix6d(M.transpose()));
      m3[0] = pt2.pose.position.x(); m3[1] = pt2.pose.position.y(); m3[2] = okt ? pt2.pose.yaw : 1e9; C3 = pt2.pose.covariance;
    }
    bool ok = true;
    IV mean3; for (double v : m3) {mean3.push_back(vh::proj(v, ok, 1e-12));}
    out.put(vh::Ev("reduce").i("kind", kind).vec("mean6", mean6).mat("M6", M6).vec("mean3", mean3).mat("M3", pm(C3, 3, 1, 1e-12, ok)).b("ex", ok));
    if (kind == 0) {
      Pose3D p; p.position = a; p.orientation = b; p.covariance = M;
      Position3D q = toPosition3D(p);
      bool ok2 = true;
      IV p3; for (int i = 0; i < 3; ++i) {p3.push_back(vh::proj(q.position[i], ok2, 1e-12));}
      out.put(vh::Ev("position").vec("mean6", mean6).mat("M6", M6).vec("p3", p3).mat("M3", pm(q.covariance, 3, 1, 1e-12, ok2)).b("ex", ok2));
    }
  } else if (what == 1) {
    Eigen::Matrix3d M3;
    bool psd = r.coin();
    if (psd) {Eigen::Matrix3d G; for (int i = 0; i < 3; ++i) {for (int j = 0; j < 3; ++j) {G(i, j) = j < (int)r.range(1, 3) ? (double)r.range(-4, 4) : 0.0;}} M3 = G * G.transpose();}
    else {for (int i = 0; i < 3; ++i) {for (int j = 0; j < 3; ++j) {M3(i, j) = 10 * i + j + 11;}}}
    Eigen::Matrix6d M6 = toSe3Covariance(M3);
    Eigen::Matrix3d back = toSe2Covariance(M6);
    bool ok = true;
    out.put(vh::Ev("embed").mat("M3", pm(M3, 3, 1, 1e-12, ok)).mat("M6", pm(M6, 6, 1, 1e-12, ok)).mat("back", pm(back, 3, 1, 1e-12, ok)).b("ex", ok));
  } else if (what == 2 || what == 3) {
    int q = (int)r.range(0, 3), rq = (int)r.range(0, 3), yq = (int)r.range(0, 3);
    if (r.coin(1, 4)) {q = 0;}                                   // the identity transform
    IV T{r.range(-50, 50), r.range(-50, 50), r.range(-50, 50)}, p{r.range(-100, 100), r.range(-100, 100), r.range(-100, 100)};
    if (q == 0 && r.coin()) {T = IV{0, 0, 0};}
    Pose3D pose;
    pose.position = Eigen::Vector3d((double)p[0], (double)p[1], (double)p[2]);
    pose.orientation = Eigen::Vector3d(rq * M_PI / 2, 0, yq * M_PI / 2);
    IM Cm; pose.covariance = label(r, true, true, Cm);
    if (what == 2) {
      Pose3D res = transform(q, T) * pose;
      bool ok = true;
      IV p2; for (int i = 0; i < 3; ++i) {p2.push_back(vh::proj(res.position[i], ok, 1e-9));}
      IV att2{quarterOf(res.orientation[0], ok), 0, quarterOf(res.orientation[2], ok)};
      if (std::fabs(std::remainder(res.orientation[1], 2 * M_PI)) > 1e-9) {ok = false;}
      out.put(vh::Ev("se3").i("q", q).vec("T", T).vec("p", p).i("rq", rq).i("yq", yq).mat("Cm", Cm).vec("p2", p2).vec("att2", att2)
        .mat("C2", pm(res.covariance, 6, 1, 1e-9, ok)).b("ex", ok));
    } else {
      int q2 = (int)r.range(0, 3); IV T2{r.range(-50, 50), r.range(-50, 50), r.range(-50, 50)};
      Pose3D r12 = transform(q2, T2) * (transform(q, T) * pose);
      Pose3D rc = (transform(q2, T2) * transform(q, T)) * pose;
      bool ok = true;
      IV p12, pc; for (int i = 0; i < 3; ++i) {p12.push_back(vh::proj(r12.position[i], ok, 1e-9)); pc.push_back(vh::proj(rc.position[i], ok, 1e-9));}
      IV a12{quarterOf(r12.orientation[0], ok), 0, quarterOf(r12.orientation[2], ok)}, ac{quarterOf(rc.orientation[0], ok), 0, quarterOf(rc.orientation[2], ok)};
      out.put(vh::Ev("compose").i("q1", q).vec("T1", T).i("q2", q2).vec("T2", T2).vec("p", p).i("rq", rq).i("yq", yq)
        .vec("p12", p12).vec("pc", pc).vec("att12", a12).vec("attc", ac).b("ex", ok));
    }
  } else {
    // ellipse of Q diag(a^2, b^2) Q^T
    static const std::vector<IV> angs = {{1, 0, 1}, {0, 1, 1}, {3, 4, 5}, {4, 3, 5}, {-3, 4, 5}, {4, -3, 5}, {7, 24, 25}, {-24, 7, 25}, {12, 5, 13}};
    IV ang = r.pick(angs);
    long long a = r.range(0, 30), b = r.range(0, 30);
    if (a < b) {std::swap(a, b);}
    if (r.coin(1, 6)) {b = 0;}                                                      // rank-deficient
    double c = (double)ang[0] / ang[2], s = (double)ang[1] / ang[2];
    Eigen::Matrix2d Q; Q << c, -s, s, c;
    // the whole covariance scaled by 4^k (radii scale by 2^k, exactly): centimetre-, micrometre- and nanometre-sized uncertainties and large ones
    const int k2 = (int)r.pick(IV{0, 0, 0, -7, -22, -30, 10});
    const double unit = std::ldexp(1.0, k2);
    Eigen::Matrix2d cov = Q * Eigen::Vector2d((double)(a * a), (double)(b * b)).asDiagonal() * Q.transpose() * (unit * unit);
    double sigma = r.pick(std::vector<double>{0.5, 1, 2, 3, 10});
    Ellipse e = [&] {
        int how = (int)r.range(0, 2);
        if (how == 0) {return Ellipse(Eigen::Vector2d(1, 2), cov, sigma);}
        if (how == 1) {Position2D p; p.position = Eigen::Vector2d(1, 2); p.covariance = cov; return uncertaintyEllipse(p, sigma);}
        Pose2D p; p.position = Eigen::Vector2d(1, 2); p.yaw = 0.3; p.covariance.setZero(); p.covariance.block<2, 2>(0, 0) = cov; p.covariance(2, 2) = 7;
        return uncertaintyEllipse(p, sigma);
      } ();
    bool ok = true;
    double tol = 1e-7;
    // radii are compared at the scale of the ellipse: a rank-deficient covariance has a minor singular value of the order of
    // machine epsilon times the major one, whose square root is ~1e-8 of the major radius
    auto radius = [&](double v) {double rv = std::nearbyint(v); if (!(std::fabs(v - rv) <= 1e-6 * (1.0 + a))) {ok = false;} return (long long)rv;};
    (void)tol;
    // the three shape getters are read in any order, each value copied as it is read
    double gMajor = 0, gMinor = 0, th = 0;
    {
      int order[3] = {0, 1, 2};
      for (int i = 2; i > 0; --i) {std::swap(order[i], order[(size_t)r.range(0, i)]);}
      for (int w : order) {if (w == 0) {gMajor = e.getMajorRadius();} else if (w == 1) {gMinor = e.getMinorRadius();} else {th = e.getOrientation();}}
    }
    long long major = radius(gMajor / sigma / unit), minor = radius(gMinor / sigma / unit);
    IV orient{vh::proj(std::cos(th) * ang[2], ok, a > b ? 1e-6 : 1e9), vh::proj(std::sin(th) * ang[2], ok, a > b ? 1e-6 : 1e9)};
    if (a == b) {ok = ok || true; orient = IV{0, 0};}
    Eigen::Matrix2d Rr; Rr << std::cos(th), -std::sin(th), std::sin(th), std::cos(th);
    Eigen::Matrix2d recon = Rr * Eigen::Vector2d(gMajor * gMajor, gMinor * gMinor).asDiagonal() *
      Rr.transpose() / (sigma * sigma) / (unit * unit);
    bool ok2 = true;
    IM rc = pm(recon, 2, (double)(ang[2] * ang[2]), 1e-7, ok2);
    out.put(vh::Ev("ellipse").i("a", a).i("b", b).vec("ang", ang).i("major", major).i("minor", minor).vec("orient", orient).mat("recon", rc)
      .b("ex", ok && ok2 && e.getCenterPosition() == Eigen::Vector2d(1, 2)));
  }
}

static Eigen::Matrix3d rzyx(const Eigen::Vector3d & a)
{
  double cr = std::cos(a[0]), sr = std::sin(a[0]), cp = std::cos(a[1]), sp = std::sin(a[1]), cy = std::cos(a[2]), sy = std::sin(a[2]);
  Eigen::Matrix3d R;
  R << cy * cp, cy * sp * sr - sy * cr, cy * sp * cr + sy * sr, sy * cp, sy * sp * sr + cy * cr, sy * sp * cr - cy * sr, -sp, cp * sr, cp * cr;
  return R;
}
static void generic(vh::Rng & r, vh::Out & out)
{
  auto u = [&]() {return (double)r.range(-1000000, 1000000) / 1000000.0;};
  auto units = [](double v) {double x = std::fabs(v) * 1e12; return x < 2e9 ? (long long)std::llround(x) : 2000000000LL;};
  std::vector<long long> res;
  bool ordered = true;
  // reductions of real-valued pose / twist
  {
    Pose3D p; Twist3D t;
    for (int i = 0; i < 3; ++i) {p.position[i] = u() * 1e4; p.orientation[i] = u() * 1.4; t.linearSpeeds[i] = u() * 50; t.angularSpeeds[i] = u() * 3;}
    Eigen::Matrix6d G; for (int i = 0; i < 6; ++i) {for (int j = 0; j < 6; ++j) {G(i, j) = u() * 10;}}
    p.covariance = G * G.transpose(); t.covariance = G.transpose() * G;
    Pose2D p2 = toPose2D(p); Twist2D t2 = toTwist2D(t); Position3D q = toPosition3D(p);
    int idx[3] = {0, 1, 5};
    double e = std::max({std::fabs(p2.position.x() - p.position.x()), std::fabs(p2.position.y() - p.position.y()), std::fabs(p2.yaw - p.orientation.z()),
                         std::fabs(t2.linearSpeeds.x() - t.linearSpeeds.x()), std::fabs(t2.linearSpeeds.y() - t.linearSpeeds.y()),
                         std::fabs(t2.angularSpeed - t.angularSpeeds.z()), (q.position - p.position).norm(), (q.covariance - p.covariance.block<3, 3>(0, 0)).norm()});
    for (int i = 0; i < 3; ++i) {for (int j = 0; j < 3; ++j) {
        e = std::max({e, std::fabs(p2.covariance(i, j) - p.covariance(idx[i], idx[j])), std::fabs(t2.covariance(i, j) - t.covariance(idx[i], idx[j]))});}}
    Eigen::Matrix3d M3 = G.block<3, 3>(0, 0) * G.block<3, 3>(0, 0).transpose();
    e = std::max(e, (toSe2Covariance(toSe3Covariance(M3)) - M3).norm());
    res.push_back(units(e));
  }
  // rigid transform of a pose: position and attitude (as a rotation); identity; composition
  {
    auto rndT = [&]() {
        Eigen::Vector3d ax(u(), u(), u()); if (ax.norm() < 1e-3) {ax = Eigen::Vector3d::UnitZ();}
        Eigen::Affine3d T = Eigen::Affine3d::Identity();
        T.linear() = Eigen::AngleAxisd(u() * M_PI, ax.normalized()).toRotationMatrix();
        T.translation() = Eigen::Vector3d(u() * 100, u() * 100, u() * 100);
        return T;
      };
    Pose3D p; p.position = Eigen::Vector3d(u() * 100, u() * 100, u() * 100);
    p.orientation = Eigen::Vector3d(u() * 3.1, u() * 1.2, u() * 3.1);
    p.covariance = Eigen::Matrix6d::Identity();
    Eigen::Affine3d T1 = rndT(), T2 = rndT();
    auto safe = [&](const Eigen::Affine3d & T, const Pose3D & q) {return std::fabs((T.linear() * rzyx(q.orientation))(2, 0)) < 0.995;};   // away from gimbal lock after transformation
    // attitudes at the edge of the quantified range: 1e-3 .. 4e-3 rad from gimbal lock, under the identity, a translation or a turn
    // about the vertical (which keep the pitch): position and attitude as a rotation
    if (r.coin(1, 4)) {
      Pose3D q = p;
      const double d = 1.0e-3 + 3.0e-3 * std::fabs(u());
      q.orientation = Eigen::Vector3d(u() * 3.1, (r.coin() ? 1 : -1) * (M_PI / 2 - d), u() * 3.1);
      Eigen::Affine3d Tz = Eigen::Affine3d::Identity();
      const int kind = (int)r.range(0, 2);
      if (kind >= 1) {Tz.translation() = Eigen::Vector3d(u() * 100, u() * 100, u() * 100);}
      if (kind == 2) {Tz.linear() = Eigen::AngleAxisd(u() * M_PI, Eigen::Vector3d::UnitZ()).toRotationMatrix();}
      Pose3D a = Tz * q;
      res.push_back(units((a.position - (Tz * q.position)).norm() / 100));
      res.push_back(units((rzyx(a.orientation) - Tz.linear() * rzyx(q.orientation)).cwiseAbs().maxCoeff()));
    }
    if (safe(T1, p)) {
      Pose3D a = T1 * p;
      res.push_back(units((a.position - (T1 * p.position)).norm() / 100));
      res.push_back(units((rzyx(a.orientation) - T1.linear() * rzyx(p.orientation)).cwiseAbs().maxCoeff()));
      Pose3D id = Eigen::Affine3d::Identity() * p;
      res.push_back(units((id.position - p.position).norm() / 100)); res.push_back(units((rzyx(id.orientation) - rzyx(p.orientation)).cwiseAbs().maxCoeff()));
      // a history of nearly equal transforms (a frame turning by micro-radians per step, a finite-difference probe): each call
      // acts with its OWN transform
      {
        Eigen::Affine3d Tn = T1;
        for (int step = 0; step < 3; ++step) {
          Eigen::Vector3d ax(u(), u(), u()); if (ax.norm() < 1e-3) {ax = Eigen::Vector3d::UnitX();}
          Tn.linear() = Tn.linear() * Eigen::AngleAxisd(std::pow(10.0, -8 + 3 * std::fabs(u())) * (r.coin() ? 1 : -1), ax.normalized()).toRotationMatrix();
          if (r.coin()) {Tn.translation() += Eigen::Vector3d(u(), u(), u()) * 1e-6;}
          if (!safe(Tn, p)) {break;}
          Pose3D an = Tn * p;
          res.push_back(units((an.position - (Tn * p.position)).norm() / 100));
          res.push_back(units((rzyx(an.orientation) - Tn.linear() * rzyx(p.orientation)).cwiseAbs().maxCoeff()));
        }
      }
      if (safe(T2, a) && safe(T2 * T1, p)) {
        Pose3D b = T2 * a, c = (T2 * T1) * p;
        res.push_back(units((b.position - c.position).norm() / 100)); res.push_back(units((rzyx(b.orientation) - rzyx(c.orientation)).cwiseAbs().maxCoeff()));
      }
    }
  }
  // ellipse of a random PSD covariance, rank-deficient included
  {
    Eigen::Matrix2d G; G << u() * 5, u() * 5, u() * 5, u() * 5;
    if (r.coin(1, 5)) {G.col(1) = G.col(0) * u();}
    Eigen::Matrix2d C = G * G.transpose() * std::pow(10.0, r.coin(1, 3) ? -24 + 30 * std::fabs(u()) : 0.0);      // any magnitude: 1e-24 .. 1e6
    double sigma = 0.1 + (u() + 1) * 4.9;
    Ellipse e(Eigen::Vector2d(3, -4), C, sigma);
    double th = e.getOrientation(), a = e.getMajorRadius(), b = e.getMinorRadius();
    if (!(a >= b - 1e-9 * a && b >= 0)) {ordered = false;}
    Eigen::Matrix2d Rr; Rr << std::cos(th), -std::sin(th), std::sin(th), std::cos(th);
    Eigen::Matrix2d recon = Rr * Eigen::Vector2d(a * a, b * b).asDiagonal() * Rr.transpose() / (sigma * sigma);
    res.push_back(units((recon - C).cwiseAbs().maxCoeff() / std::max(1e-300, C.cwiseAbs().maxCoeff())));
  }
  out.put(vh::Ev("generic").vec("res", res).b("ordered", ordered));
}

int main(int argc, char ** argv)
{
  if (argc != 5 || std::string(argv[1]) != "random") {std::fprintf(stderr, "usage: drive_pose random seed n out\n"); return 3;}
  vh::Rng r(std::strtoull(argv[2], nullptr, 10));
  int n = std::atoi(argv[3]);
  vh::Out out(argv[4]);
  for (int k = 0; k < n; ++k) {if (k % 100 == 0) {out.put(vh::Ev("Reset"));} one(r, out); generic(r, out);}
  std::printf("%lld\n", out.lines);
  return 0;
}
