// Conformance driver for WrappableGrid<int,2/3> (C15, spec/ScrollGrid.tla).
//   drive_scrollgrid script <script.txt> <out.ndjson>   replay TLC-generated paths, expanding
//                                                       every action of the model from each state
//   drive_scrollgrid random <seed> <nexec> <maxn> <maxlen> <out.ndjson>
// One ndjson event per public call, logged at its return, with the whole window read back
// through operator() and the reported index offset.
#include "vh.hpp"
#include <string>
#include "romea_core_common/containers/grid/WrappableGrid.hpp"

using namespace romea::core;

// cell types: int, and a type with a real move constructor and heap storage (a moved-from or default cell reads -777777)
template<class T> struct Cell;
template<> struct Cell<int> {static int to(int v) {return v;} static int from(const int & c) {return c;}};
template<> struct Cell<std::string>
{
  static std::string to(int v) {return "cell-value-with-heap-storage-" + std::to_string(v);}
  static int from(const std::string & c)
  {
    const std::string pre = "cell-value-with-heap-storage-";
    if (c.compare(0, pre.size(), pre) != 0 || c.size() == pre.size()) {return -777777;}
    return std::atoi(c.c_str() + pre.size());
  }
};

template<size_t DIM, class T = int>
struct Obj
{
  using G = WrappableGrid<T, DIM>;
  using B = Grid<T, DIM>;
  using CI = typename G::CellIndexes;
  using CO = typename G::CellIndexesOffset;
  G g;
  std::vector<int> n;
  bool viaBase = false;        // cells are read and written through a reference to the base class Grid<T, DIM>
  explicit Obj(const std::vector<int> & nn, bool vb = false) : g(mk(nn)), n(nn), viaBase(vb) {}
  static CI mk(const std::vector<int> & v) {CI c; for (size_t a = 0; a < DIM; ++a) {c[a] = v[a];} return c;}
  size_t ncells() const {size_t p = 1; for (int x : n) {p *= x;} return p;}
  CI coord(size_t k) const
  {
    CI c;
    for (size_t a = 0; a < DIM; ++a) {c[a] = k % n[a]; k /= n[a];}
    return c;
  }
  T & cell(const CI & c) {if (viaBase) {B & b = g; return b(c);} return g(c);}
  std::vector<int> window()
  {
    std::vector<int> w;
    // read through the const accessor: observing the grid must not be a write access
    const G & cg = g;
    const B & cb = g;
    for (size_t k = 0; k < ncells(); ++k) {w.push_back(Cell<T>::from(viaBase ? cb(coord(k)) : cg(coord(k))));}
    return w;
  }
  std::vector<long long> offset()
  {
    std::vector<long long> o;
    auto off = g.getIndexOffsetAlongAxes();
    for (size_t a = 0; a < DIM; ++a) {o.push_back((long long)off[a]);}
    return o;
  }
  void init(const std::vector<int> & contents)
  {
    for (size_t k = 0; k < ncells(); ++k) {cell(coord(k)) = Cell<T>::to(contents[k]);}
  }
  std::string translate(const std::vector<int> & d, int e)
  {
    CO o; for (size_t a = 0; a < DIM; ++a) {o[a] = d[a];}
    g.translate(o, Cell<T>::to(e));
    return vh::Ev("translate").vec("d", d).i("empty", e).vec("win", window()).vec("off", offset()).done();
  }
  // translate relying on the default argument: entering cells read a default-constructed cell
  std::string translateDefault(const std::vector<int> & d)
  {
    CO o; for (size_t a = 0; a < DIM; ++a) {o[a] = d[a];}
    g.translate(o);
    return vh::Ev("translate").vec("d", d).i("empty", Cell<T>::from(T())).vec("win", window()).vec("off", offset()).done();
  }
  // "back towards the origin": the offset argument is an expression of the grid's own reported offset, not evaluated by the caller
  std::string translateBack(int e)
  {
    std::vector<int> d; for (size_t a = 0; a < DIM; ++a) {d.push_back(-(int)g.getIndexOffsetAlongAxes()[a]);}
    g.translate(-g.getIndexOffsetAlongAxes().template cast<int>(), Cell<T>::to(e));
    return vh::Ev("translate").vec("d", d).i("empty", e).vec("win", window()).vec("off", offset()).done();
  }
  std::string write(const std::vector<int> & i, int v)
  {
    cell(mk(i)) = Cell<T>::to(v);
    return vh::Ev("write").vec("i", i).i("v", v).vec("win", window()).vec("off", offset()).done();
  }
  std::string fill(int v)
  {
    if (viaBase) {B & b = g; b.setValue(Cell<T>::to(v));} else {g.setValue(Cell<T>::to(v));}
    return vh::Ev("fill").i("v", v).vec("win", window()).vec("off", offset()).done();
  }
};

static std::string resetLine(int dim, const std::vector<int> & n, const std::vector<int> & init)
{
  return vh::Ev("Reset").i("dim", dim).vec("n", n).vec("init", init).done();
}

// script lines:  R dim n.. | I v.. | T d.. e | W i.. v | F v | X maxoff-per-axis-rule empties.. ; wvals..
template<size_t DIM, class T>
static size_t runExecT(const std::vector<std::vector<std::string>> & sc, size_t at, vh::Out & out, bool viaBase)
{
  std::vector<int> n;
  for (size_t a = 0; a < DIM; ++a) {n.push_back(vh::I(sc[at][2 + a]));}
  Obj<DIM, T> o(n, viaBase);
  std::vector<int> init;
  ++at;
  for (size_t k = 1; k < sc[at].size(); ++k) {init.push_back(vh::I(sc[at][k]));}
  o.init(init);
  out.puts(resetLine(DIM, n, init));
  ++at;
  for (; at < sc.size() && sc[at][0] != "R"; ++at) {
    const auto & t = sc[at];
    if (t[0] == "T") {
      std::vector<int> d; for (size_t a = 0; a < DIM; ++a) {d.push_back(vh::I(t[1 + a]));}
      out.puts(o.translate(d, vh::I(t[1 + DIM])));
    } else if (t[0] == "W") {
      std::vector<int> i; for (size_t a = 0; a < DIM; ++a) {i.push_back(vh::I(t[1 + a]));}
      out.puts(o.write(i, vh::I(t[1 + DIM])));
    } else if (t[0] == "F") {
      out.puts(o.fill(vh::I(t[1])));
    } else if (t[0] == "X") {
      // expand every model action from the current state on copies of the object
      std::vector<int> empties, wvals;
      bool w = false;
      for (size_t k = 1; k < t.size(); ++k) {
        if (t[k] == ";") {w = true; continue;}
        (w ? wvals : empties).push_back(vh::I(t[k]));
      }
      out.puts(vh::Ev("save").done());
      std::vector<int> d(DIM);
      long long total = 1;
      for (size_t a = 0; a < DIM; ++a) {total *= 2 * (n[a] + 1) + 1;}
      for (long long code = 0; code < total; ++code) {
        long long c = code;
        for (size_t a = 0; a < DIM; ++a) {int r = 2 * (n[a] + 1) + 1; d[a] = (int)(c % r) - (n[a] + 1); c /= r;}
        for (int e : empties) {
          Obj<DIM, T> cp = o;
          out.puts(cp.translate(d, e));
          out.puts(vh::Ev("restore").done());
        }
      }
      for (int v : wvals) {
        for (size_t k = 0; k < o.ncells(); ++k) {
          Obj<DIM, T> cp = o;
          auto ci = cp.coord(k);
          std::vector<int> i; for (size_t a = 0; a < DIM; ++a) {i.push_back((int)ci[a]);}
          out.puts(cp.write(i, v));
          out.puts(vh::Ev("restore").done());
        }
        Obj<DIM, T> cp = o;
        out.puts(cp.fill(v));
        out.puts(vh::Ev("restore").done());
      }
    }
  }
  return at;
}

// executions take the four variants (int / string cells, direct / through the base class) in turn
static size_t g_variant = 0;
template<size_t DIM>
static size_t runExec(const std::vector<std::vector<std::string>> & sc, size_t at, vh::Out & out)
{
  size_t v = g_variant++ % 4;
  return v < 2 ? runExecT<DIM, int>(sc, at, out, v == 1) : runExecT<DIM, std::string>(sc, at, out, v == 3);
}

template<size_t DIM, class T>
static void randomExecT(vh::Rng & r, int maxn, int maxlen, vh::Out & out, bool viaBase)
{
  std::vector<int> n;
  for (size_t a = 0; a < DIM; ++a) {n.push_back((int)r.range(1, maxn));}
  Obj<DIM, T> o(n, viaBase);
  std::vector<int> init;
  for (size_t k = 0; k < o.ncells(); ++k) {init.push_back(1000 + (int)k);}
  o.init(init);
  out.puts(resetLine(DIM, n, init));
  int len = (int)r.range(1, maxlen);
  int style = (int)r.range(0, 3);   // 0 small offsets, 1 up to n, 2 up to 2n, 3 mixed with zeros on some axes
  int nextv = 1;
  for (int s = 0; s < len; ++s) {
    int what = (int)r.range(0, 9);
    if (what < 6) {
      std::vector<int> d;
      for (size_t a = 0; a < DIM; ++a) {
        int m = style == 0 ? 1 : style == 1 ? n[a] : 2 * n[a];
        int x = (int)r.range(-m, m);
        if (style == 3 && r.coin()) {x = 0;}
        d.push_back(x);
      }
      const int way = (int)r.range(0, 7);
      if (way == 0) {out.puts(o.translateDefault(d));} else if (way == 1) {out.puts(o.translateBack((int)r.range(-3, 3) * 1000 - 7));}
      else {out.puts(o.translate(d, (int)r.range(-3, 3) * 1000 - 7));}
    } else if (what < 9) {
      std::vector<int> i;
      for (size_t a = 0; a < DIM; ++a) {i.push_back((int)r.range(0, n[a] - 1));}
      out.puts(o.write(i, nextv++));
    } else {
      out.puts(o.fill(nextv++));
    }
  }
}

template<size_t DIM>
static void randomExec(vh::Rng & r, int maxn, int maxlen, vh::Out & out)
{
  size_t v = g_variant++ % 4;
  if (v < 2) {randomExecT<DIM, int>(r, maxn, maxlen, out, v == 1);} else {randomExecT<DIM, std::string>(r, maxn, maxlen, out, v == 3);}
}

int main(int argc, char ** argv)
{
  std::string mode = argc > 1 ? argv[1] : "";
  if (mode == "script" && argc == 4) {
    auto sc = vh::readScript(argv[2]);
    vh::Out out(argv[3]);
    size_t at = 0;
    while (at < sc.size()) {
      if (sc[at][0] != "R") {std::fprintf(stderr, "bad script line %zu\n", at); return 3;}
      at = vh::I(sc[at][1]) == 2 ? runExec<2>(sc, at, out) : runExec<3>(sc, at, out);
    }
    std::printf("%lld\n", out.lines);
    return 0;
  }
  if (mode == "random" && argc == 7) {
    vh::Rng r(std::strtoull(argv[2], nullptr, 10));
    int nexec = std::atoi(argv[3]), maxn = std::atoi(argv[4]), maxlen = std::atoi(argv[5]);
    vh::Out out(argv[6]);
    for (int k = 0; k < nexec; ++k) {
      if (r.coin(2, 3)) {randomExec<2>(r, maxn, maxlen, out);} else {randomExec<3>(r, std::min(maxn, 6), maxlen, out);}
    }
    std::printf("%lld\n", out.lines);
    return 0;
  }
  std::fprintf(stderr, "usage: see header comment\n");
  return 3;
}
