// Driver for the specification-growth module spec/Extras.tla: PID, FirstOrderButterworth, the correspondence one-to-one
// filtering used by ICP / RANSAC, and Time.hpp duration conversions.   drive_extras random <seed> <n> <out.ndjson>
#include "vh.hpp"
#include <algorithm>
#include "romea_core_common/control/PID.hpp"
#include "romea_core_common/signal/FirstOrderButterworth.hpp"
#include "romea_core_common/pointset/algorithms/Correspondence.hpp"
#include "romea_core_common/time/Time.hpp"
#include "romea_core_common/regression/ransac/Ransac.hpp"
#include "romea_core_common/regression/ransac/RansacModel.hpp"
#include "romea_core_common/regression/ransac/RansacIterations.hpp"
#include "romea_core_common/regression/leastsquares/NLSE.hpp"
#include "romea_core_common/regression/leastsquares/MEstimator.hpp"
#include "romea_core_common/log/SimpleFileLogger.hpp"
#include "romea_core_common/math/EulerAngles.hpp"
#include "romea_core_common/math/Algorithm.hpp"
#include "romea_core_common/math/Interval.hpp"
#include <fstream>
#include <sstream>
#include <unistd.h>
#include <limits>

using namespace romea::core;
using IV = std::vector<long long>;

// a scripted RANSAC model: the abstract RansacModel is the mock seam of the control loop
struct ScriptedModel : public RansacModel
{
  std::vector<std::pair<bool, size_t>> script;
  size_t N, m, minInl;
  size_t at = 0, draws = 0, counts = 0, refines = 0;
  bool lastOk = false; size_t lastC = 0;
  bool draw(const double &) override {++draws; if (at < script.size()) {lastOk = script[at].first; lastC = script[at].second;} else {lastOk = false; lastC = 0;} ++at; return lastOk;}
  size_t countInliers(const double &) override {++counts; return lastC;}
  void refine() override {++refines;}
  size_t getNumberOfPoints() const override {return N;}
  size_t getNumberOfPointsToDrawModel() const override {return m;}
  size_t getMinimalNumberOfInliers() const override {return minInl;}
  double getRootMeanSquareError() const override {return 0;}
};

static void ransac(vh::Rng & r, vh::Out & out)
{
  ScriptedModel mod;
  mod.N = (size_t)r.range(5, 60); mod.m = (size_t)r.range(2, 4); mod.minInl = (size_t)r.range(2, (long long)mod.N + 5);
  int style = (int)r.range(0, 3);
  for (int k = 0; k < 1100; ++k) {
    bool ok = !r.coin(1, 6);
    size_t c = style == 0 ? (size_t)r.range(0, (long long)mod.m) : style == 1 ? (size_t)r.range(0, (long long)mod.N) :
      (size_t)std::min<long long>((long long)mod.N, r.range(0, 3 + k / 3));
    mod.script.push_back({ok, c});
  }
  // iteration bound of the standard formula, per inlier count (long double, independent of the library's double evaluation;
  // counts whose bound is within 1e-9 of an integer are avoided in the script)
  std::vector<long long> B;
  for (size_t c = 0; c <= mod.N; ++c) {
    long double w = (long double)c / (long double)mod.N, po = 1.0L - std::pow(w, (long double)mod.m);
    po = std::max((long double)std::numeric_limits<double>::epsilon(), po); po = std::min(1.0L - (long double)std::numeric_limits<double>::epsilon(), po);
    long double it = std::log(1.0L - (long double)0.99f) / std::log(po);
    if (std::fabs(it - std::nearbyint((double)it)) < 1e-7L) {for (auto & sc : mod.script) {if (sc.second == c) {sc.second = c > 0 ? c - 1 : 0;}}}
    B.push_back(it > 2.0e9L ? 2000000000LL : (long long)it);
  }
  // bounds of counts that were remapped must be recomputed consistently: recompute the table once more (remapping only lowers counts)
  Ransac ransacLoop(&mod, 0.1);
  bool ret = ransacLoop.estimateModel();
  std::vector<std::vector<long long>> script;
  size_t used = std::min<size_t>(mod.script.size(), 1005);
  for (size_t k = 0; k < used; ++k) {script.push_back({mod.script[k].first ? 1 : 0, (long long)mod.script[k].second});}
  std::string sj = "[";
  for (size_t k = 0; k < script.size(); ++k) {sj += (k ? "," : ""); sj += std::string("[") + (script[k][0] ? "true" : "false") + "," + std::to_string(script[k][1]) + "]";}
  sj += "]";
  out.put(vh::Ev("ransac").i("N", (long long)mod.N).i("m", (long long)mod.m).i("minInl", (long long)mod.minInl).raw("script", sj).vec("B", B)
    .i("draws", (long long)mod.draws).i("counts", (long long)mod.counts).i("refines", (long long)mod.refines).b("ret", ret));
}

// a scripted NLSE: one parameter, four rows, Jacobian 1, residual script[k] at the k-th evaluation
struct ScriptedNlse : public NLSE<double>
{
  std::vector<long long> script; long long x0 = 0; size_t calls = 0, guesses = 0;
  explicit ScriptedNlse(double eps) : NLSE<double>(eps) {}
  void computeGuess_() override {++guesses; estimate_ = Vector::Constant(1, (double)x0);}
  void computeJacobianAndY_() override
  {
    leastSquares_.setEstimateSize(1); leastSquares_.setDataSize(4);
    leastSquares_.getJ().setOnes(); leastSquares_.getW().setOnes();
    leastSquares_.getY().setConstant((double)(calls < script.size() ? script[calls] : 0));
    ++calls;
  }
};

static void nlse(vh::Rng & r, vh::Out & out)
{
  long long E = r.range(0, 3), S = r.range(0, 12), maxIt = r.range(0, 12);
  ScriptedNlse m(0.7 * ((double)E + 0.5));
  m.x0 = r.range(-20, 20);
  int style = (int)r.range(0, 2);
  for (int k = 0; k < 16; ++k) {
    long long v = style == 0 ? r.range(-15, 15) : style == 1 ? (k < (int)r.range(0, 14) ? r.range(4, 15) : r.range(-3, 3)) : r.range(-(long long)(16 - k), 16 - k);
    m.script.push_back(v);
  }
  bool ret = m.estimate((size_t)maxIt, ((double)S + 0.5) / 50.0);
  bool ok = true;
  long long est10 = vh::proj(m.getEstimate()(0) * 10.0, ok, 1e-6);
  double rm = m.getRootMeanSquareError();
  bool unset = rm == -1.0;
  long long mse2 = unset ? 0 : vh::proj(rm * rm * 2.0, ok, 1e-6);
  if (!ok) {est10 = -999999;}
  out.put(vh::Ev("nlse").i("E", E).i("S", S).i("maxIt", maxIt).i("x0", m.x0).vec("r", m.script).b("ret", ret)
    .i("iters", (long long)m.getNumberOfIterations()).i("calls", (long long)m.calls).i("guesses", (long long)m.guesses)
    .i("est10", est10).b("rmseUnset", unset).i("mse2", mse2));
}

static std::string g_logfile;

// SimpleFileLogger: entries named c<id> with integer values; the file is read back and logged as integer fields per line
static void logger(vh::Rng & r, vh::Out & out, bool open)
{
  SimpleFileLogger lg;
  if (open) {lg.init(g_logfile, r.coin() ? "," : ";");}
  int steps = (int)r.range(0, 14);
  int ncols = (int)r.range(0, 4);
  for (int s = 0; s < steps; ++s) {
    // rows keep the column layout of the first written row (the class asserts it)
    for (int c = 0; c < ncols; ++c) {
      long long v = r.range(-500, 500);
      if (r.coin()) {lg.addEntry("c" + std::to_string(c + 1), (int)v);} else {lg.addEntry("c" + std::to_string(c + 1), (long)v);}
      out.put(vh::Ev("lgadd").i("name", c + 1).i("v", v));
    }
    lg.writeRow();
    out.put(vh::Ev("lgwrite"));
  }
  std::vector<IV> lines;
  if (open) {
    std::ifstream f(g_logfile);
    std::string line;
    while (std::getline(f, line)) {
      IV fields;
      bool header = !line.empty() && line[0] == '%';
      if (header) {fields.push_back(-1000); line = line.substr(1);}
      std::string tok;
      for (char ch : line) {
        if (ch == ',' || ch == ';') {
          if (header) {
            // "(k)c<id>": the position must be k and the name c<id>
            size_t close = tok.find(')');
            long long pos = std::atoll(tok.substr(1, close - 1).c_str());
            long long id = tok.size() > close + 2 && tok[close + 1] == 'c' ? std::atoll(tok.substr(close + 2).c_str()) : -77;
            fields.push_back(pos == (long long)fields.size() ? id : -99);
          } else {fields.push_back(std::atoll(tok.c_str()));}
          tok.clear();
        } else {tok += ch;}
      }
      if (!tok.empty()) {fields.push_back(-88);}                           // every field is followed by the separator
      lines.push_back(fields);
    }
  }
  out.put(vh::Ev("lgfile").mat("lines", lines));
}

static void misc(vh::Rng & r, vh::Out & out)
{
  {
    // MEstimator (median / MAD / Huber weights) on integer residuals, one object reused over calls of different sizes
    long long sd = r.pick(std::vector<long long>{1, 2, 5});
    MEstimator<double> est((double)sd);
    int calls = (int)r.range(1, 4), nprev = 1;
    for (int c = 0; c < calls; ++c) {
      // sizes never shrink on one object: a smaller size after a larger one compares vectors of different lengths inside
      // computeWeights (Eigen assertion in builds without NDEBUG) - recorded in DESIGN.md, outside the listed properties
      int n = std::max(nprev, (int)r.range(1, 10));
      nprev = n;
      Eigen::VectorXd res(n);
      IV rs;
      bool spread = r.coin();
      for (int j = 0; j < n; ++j) {long long v = spread ? r.range(-20, 20) : r.range(-3, 3); res(j) = (double)v; rs.push_back(v);}
      double ratio = r.coin() ? est.computeWeights(res) : est.computeWeights(res, 0);
      // (getWeights() is declared in the header but defined nowhere in the library, so only the returned share is observable)
      bool ok = true;
      long long cnt = vh::proj(ratio * n, ok, 1e-6);
      out.put(vh::Ev("mest").i("sd", sd).vec("r", rs).i("cnt", cnt).b("ex", ok));
    }
  }
  {
    long long k = r.range(-15, 15);
    double v = (double)k * (M_PI / 4);
    bool ok = true;
    long long j02 = vh::proj(between0And2Pi(v) / (M_PI / 4), ok, 1e-6), jpi = vh::proj(betweenMinusPiAndPi(v) / (M_PI / 4), ok, 1e-6);
    out.put(vh::Ev("wrap").i("k", k).i("j02", j02).i("jpi", jpi).b("ex", ok));
  }
  {
    // RansacIterations: the bound is a running minimum of floor(log(1 - p) / log(1 - w^k)), w = inliers / points; p = 1 - 2^-pk
    long long N = r.range(2, 6), pk = r.range(1, 4), maxIt = r.coin() ? r.range(0, 12) : r.range(13, 2000);
    RansacIterations it((size_t)N, (float)(1.0 - std::ldexp(1.0, -(int)pk)), (size_t)maxIt);
    std::vector<IV> ups;
    long long prev = (long long)it.get();
    bool first = prev == maxIt;
    int nup = (int)r.range(1, 6);
    for (int u = 0; u < nup; ++u) {
      long long i = r.range(0, N), k = r.range(1, 2);
      it.update((size_t)i, (size_t)k);
      long long now = (long long)it.get();
      long long b = 1; for (int j = 0; j < k; ++j) {b *= N;}
      long long e = now < prev ? now + 1 : prev;                              // highest power the specification needs
      double big = std::pow((double)b, (double)e) * std::ldexp(1.0, (int)pk);
      ups.push_back(IV{i, k, now, big < 1e9 ? 1 : 0});
      prev = now;
    }
    out.put(vh::Ev("ransacit").i("N", N).i("pk", pk).i("maxIt", maxIt).b("first", first).mat("ups", ups));
  }
  {
    long long x2 = r.range(-40, 40), y2 = r.range(-40, 40), a = r.range(-40, 40), b = r.range(-40, 40);
    long long lo2 = std::min(a, b), hi2 = std::max(a, b);
    double x = x2 / 2.0, y = y2 / 2.0;
    auto d = safeDivide(x, y);
    bool ok = true;
    out.put(vh::Ev("algo").i("x2", x2).i("y2", y2).i("lo2", lo2).i("hi2", hi2).i("sign", (long long)sign(x))
      .i("smin", (long long)(2 * signedMin(x, y))).i("sfloor", (long long)signedFloor(x)).i("clamp", (long long)(2 * clamp(x, lo2 / 2.0, hi2 / 2.0)))
      .i("sclamp", (long long)(2 * symmetricClamp(x, std::fabs(y)))).b("divHas", d.has_value())
      .i("div", d.has_value() && y2 != 0 && x2 % y2 == 0 ? vh::proj(*d, ok, 1e-9) : 0));
  }
  auto box = [&](auto tag) {
      constexpr int D = decltype(tag)::value;
      using I = Interval<double, D>;
      using T = typename I::T;
      auto rnd = [&](T & lo, T & hi, long long m) {for (int a = 0; a < D; ++a) {long long u = r.range(-m, m), v = r.range(-m, m); lo[a] = (double)std::min(u, v); hi[a] = (double)std::max(u, v);}};
      T lo, hi, lo2, hi2, p, limLo, limHi;
      rnd(lo, hi, 6); rnd(lo2, hi2, 8);
      for (int a = 0; a < D; ++a) {p[a] = (double)r.range(-9, 9); limLo[a] = lo[a] - (double)r.range(0, 3); limHi[a] = hi[a] + (double)r.range(0, 3);}
      I i1(lo, hi), i2(lo2, hi2), hull(lo, hi);
      hull.include(i2);
      IntervalComplement<double, D> compl_(i1, I(limLo, limHi));
      auto iv = [&](const T & t, double f = 1) {IV v; for (int a = 0; a < D; ++a) {v.push_back((long long)(t[a] * f));} return v;};
      out.put(vh::Ev("intervaln").vec("lo", iv(lo)).vec("hi", iv(hi)).vec("lo2", iv(lo2)).vec("hi2", iv(hi2)).vec("p", iv(p))
        .vec("limLo", iv(limLo)).vec("limHi", iv(limHi)).b("inside", i1.inside(p)).vec("width", iv(i1.width())).vec("center2", iv(i1.center(), 2))
        .vec("hullLo", iv(hull.lower())).vec("hullHi", iv(hull.upper())).b("hullInside", hull.inside(p)).b("complInside", compl_.inside(p)));
    };
  if (r.coin()) {box(std::integral_constant<int, 2>());} else {box(std::integral_constant<int, 3>());}
}

static void exec(vh::Rng & r, vh::Out & out)
{
  long long kp = r.range(-3, 3), ki = r.range(0, 3), kd = r.range(0, 2), lo8 = -8 * r.range(0, 20), hi8 = 8 * r.range(0, 20), eps = r.range(0, 3);
  int w = (int)r.range(0, 4);
  bool lgopen = !r.coin(1, 5);
  out.put(vh::Ev("Reset").i("kp", kp).i("ki", ki).i("kd", kd).i("imin8", lo8).i("imax8", hi8).i("eps", eps).i("w", w).b("lgopen", lgopen));
  PID pid((double)kp, (double)ki, (double)kd, lo8 / 8.0, hi8 / 8.0, (double)eps);
  FirstOrderButterworth f(w / 4.0);
  long long at = 0;
  logger(r, out, lgopen);
  misc(r, out);
  int len = (int)r.range(1, 40);
  for (int s = 0; s < len; ++s) {
    int what = (int)r.range(0, 9);
    if (what < 5) {
      long long dt = r.range(1, 24);
      long long prevAt = at;
      at += dt;
      long long sp = r.range(-20, 20), meas = r.range(-20, 20);
      double o = pid.compute(durationFromNanoSecond(at * 125000000LL), (double)sp, (double)meas);
      bool ok = true;
      long long o8k = vh::proj(o * 8.0 * (double)(s == 0 && prevAt == 0 && false ? 1 : dt), ok, 1e-9);
      // before the first error is known the output is 0; dt is then irrelevant
      out.put(vh::Ev("pid").i("at", at).i("sp", sp).i("meas", meas).i("out8k", o8k).b("ex", ok));
    } else if (what < 8) {
      long long x = r.range(-16, 16);
      double v = f.update((double)x);
      // exact dyadic value: find the smallest power-of-two denominator
      long long den = 1; double num = v; bool ok = true;
      while (num != std::nearbyint(num) && den < (1LL << 30)) {num *= 2; den *= 2;}
      if (num != std::nearbyint(num) || std::fabs(num) > 2e9) {ok = false; num = 0; den = 1;}
      out.put(vh::Ev("filter").i("x", x).i("num", (long long)num).i("den", den).b("ex", ok));
      if (den > (1LL << 24)) {f.reset(); out.put(vh::Ev("freset"));}          // keep numerators within TLC's integers
    } else if (what == 8) {
      f.reset();
      out.put(vh::Ev("freset"));
    } else {
      // one-to-one filtering as ICP (by source) / RANSAC (by target) do it
      bool byTarget = r.coin();
      int n = (int)r.range(0, 30);
      std::vector<Correspondence> cs;
      for (int k = 0; k < n; ++k) {cs.push_back(Correspondence((size_t)r.range(0, 9), (size_t)r.range(0, 9), (double)r.range(0, 50)));}
      std::vector<IV> inp; for (auto & c : cs) {inp.push_back(IV{(long long)c.sourcePointIndex, (long long)c.targetPointIndex, (long long)c.squareDistanceBetweenPoints});}
      if (byTarget) {
        std::sort(cs.begin(), cs.end(), sortByTargetIndexAndDistancePredicate);
        cs.erase(std::unique(cs.begin(), cs.end(), equalTargetIndexesPredicate), cs.end());
      } else {
        std::sort(cs.begin(), cs.end(), sortBySourceIndexAndDistancePredicate);
        cs.erase(std::unique(cs.begin(), cs.end(), equalSourceIndexesPredicate), cs.end());
      }
      std::vector<IV> outp; for (auto & c : cs) {outp.push_back(IV{(long long)c.sourcePointIndex, (long long)c.targetPointIndex, (long long)c.squareDistanceBetweenPoints});}
      out.put(vh::Ev("onetoone").b("byTarget", byTarget).mat("inp", inp).mat("out", outp));
      long long us = r.range(-2000000, 2000000), ns = r.range(-2000000000LL, 2000000000LL);
      out.put(vh::Ev("duration").i("us", us).i("ns", ns).i("fromMicro", durationToNanoSecond(durationFromMicroSecond(us)))
        .i("toMicro", durationToMicroSecond(durationFromNanoSecond(ns))));
    }
  }
}

int main(int argc, char ** argv)
{
  if (argc != 5 || std::string(argv[1]) != "random") {std::fprintf(stderr, "usage: drive_extras random seed n out\n"); return 3;}
  vh::Rng r(std::strtoull(argv[2], nullptr, 10));
  int n = std::atoi(argv[3]);
  vh::Out out(argv[4]);
  g_logfile = std::string(argv[4]) + ".log." + std::to_string((long long)getpid());
  for (int k = 0; k < n; ++k) {exec(r, out); if (k % 4 == 0) {ransac(r, out);} nlse(r, out);}
  unlink(g_logfile.c_str());
  std::printf("%lld\n", out.lines);
  return 0;
}
