// Driver for the specification-growth module spec/Extras.tla: PID, FirstOrderButterworth, the correspondence one-to-one
// filtering used by ICP / RANSAC, and Time.hpp duration conversions.   drive_extras random <seed> <n> <out.ndjson>
#include "vh.hpp"
#include <algorithm>
#include "romea_core_common/control/PID.hpp"
#include "romea_core_common/signal/FirstOrderButterworth.hpp"
#include "romea_core_common/pointset/algorithms/Correspondence.hpp"
#include "romea_core_common/time/Time.hpp"
#include "romea_core_common/regression/ransac/Ransac.hpp"
#include "romea_core_common/regression/ransac/RansacModel.hpp"
#include "romea_core_common/regression/leastsquares/NLSE.hpp"
#include <limits>

using namespace romea::core;
using IV = std::vector<long long>;

// a scripted RANSAC model: the abstract RansacModel is the mock seam of the control loop
struct ScriptedModel : public RansacModel
{
  std::vector<std::pair<bool, size_t>> script;
  size_t N, m, minInl;
  size_t at = 0, draws = 0, counts = 0, refines = 0;
  bool lastOk = false; size_t lastC = 0;
  bool draw(const double &) override {++draws; if (at < script.size()) {lastOk = script[at].first; lastC = script[at].second;} else {lastOk = false; lastC = 0;} ++at; return lastOk;}
  size_t countInliers(const double &) override {++counts; return lastC;}
  void refine() override {++refines;}
  size_t getNumberOfPoints() const override {return N;}
  size_t getNumberOfPointsToDrawModel() const override {return m;}
  size_t getMinimalNumberOfInliers() const override {return minInl;}
  double getRootMeanSquareError() const override {return 0;}
};

static void ransac(vh::Rng & r, vh::Out & out)
{
  ScriptedModel mod;
  mod.N = (size_t)r.range(5, 60); mod.m = (size_t)r.range(2, 4); mod.minInl = (size_t)r.range(2, (long long)mod.N + 5);
  int style = (int)r.range(0, 3);
  for (int k = 0; k < 1100; ++k) {
    bool ok = !r.coin(1, 6);
    size_t c = style == 0 ? (size_t)r.range(0, (long long)mod.m) : style == 1 ? (size_t)r.range(0, (long long)mod.N) :
      (size_t)std::min<long long>((long long)mod.N, r.range(0, 3 + k / 3));
    mod.script.push_back({ok, c});
  }
  // iteration bound of the standard formula, per inlier count (long double, independent of the library's double evaluation;
  // counts whose bound is within 1e-9 of an integer are avoided in the script)
  std::vector<long long> B;
  for (size_t c = 0; c <= mod.N; ++c) {
    long double w = (long double)c / (long double)mod.N, po = 1.0L - std::pow(w, (long double)mod.m);
    po = std::max((long double)std::numeric_limits<double>::epsilon(), po); po = std::min(1.0L - (long double)std::numeric_limits<double>::epsilon(), po);
    long double it = std::log(1.0L - (long double)0.99f) / std::log(po);
    if (std::fabs(it - std::nearbyint((double)it)) < 1e-7L) {for (auto & sc : mod.script) {if (sc.second == c) {sc.second = c > 0 ? c - 1 : 0;}}}
    B.push_back(it > 2.0e9L ? 2000000000LL : (long long)it);
  }
  // bounds of counts that were remapped must be recomputed consistently: recompute the table once more (remapping only lowers counts)
  Ransac ransacLoop(&mod, 0.1);
  bool ret = ransacLoop.estimateModel();
  std::vector<std::vector<long long>> script;
  size_t used = std::min<size_t>(mod.script.size(), 1005);
  for (size_t k = 0; k < used; ++k) {script.push_back({mod.script[k].first ? 1 : 0, (long long)mod.script[k].second});}
  std::string sj = "[";
  for (size_t k = 0; k < script.size(); ++k) {sj += (k ? "," : ""); sj += std::string("[") + (script[k][0] ? "true" : "false") + "," + std::to_string(script[k][1]) + "]";}
  sj += "]";
  out.put(vh::Ev("ransac").i("N", (long long)mod.N).i("m", (long long)mod.m).i("minInl", (long long)mod.minInl).raw("script", sj).vec("B", B)
    .i("draws", (long long)mod.draws).i("counts", (long long)mod.counts).i("refines", (long long)mod.refines).b("ret", ret));
}

// a scripted NLSE: one parameter, four rows, Jacobian 1, residual script[k] at the k-th evaluation
struct ScriptedNlse : public NLSE<double>
{
  std::vector<long long> script; long long x0 = 0; size_t calls = 0, guesses = 0;
  explicit ScriptedNlse(double eps) : NLSE<double>(eps) {}
  void computeGuess_() override {++guesses; estimate_ = Vector::Constant(1, (double)x0);}
  void computeJacobianAndY_() override
  {
    leastSquares_.setEstimateSize(1); leastSquares_.setDataSize(4);
    leastSquares_.getJ().setOnes(); leastSquares_.getW().setOnes();
    leastSquares_.getY().setConstant((double)(calls < script.size() ? script[calls] : 0));
    ++calls;
  }
};

static void nlse(vh::Rng & r, vh::Out & out)
{
  long long E = r.range(0, 3), S = r.range(0, 12), maxIt = r.range(0, 12);
  ScriptedNlse m(0.7 * ((double)E + 0.5));
  m.x0 = r.range(-20, 20);
  int style = (int)r.range(0, 2);
  for (int k = 0; k < 16; ++k) {
    long long v = style == 0 ? r.range(-15, 15) : style == 1 ? (k < (int)r.range(0, 14) ? r.range(4, 15) : r.range(-3, 3)) : r.range(-(long long)(16 - k), 16 - k);
    m.script.push_back(v);
  }
  bool ret = m.estimate((size_t)maxIt, ((double)S + 0.5) / 50.0);
  bool ok = true;
  long long est10 = vh::proj(m.getEstimate()(0) * 10.0, ok, 1e-6);
  double rm = m.getRootMeanSquareError();
  bool unset = rm == -1.0;
  long long mse2 = unset ? 0 : vh::proj(rm * rm * 2.0, ok, 1e-6);
  if (!ok) {est10 = -999999;}
  out.put(vh::Ev("nlse").i("E", E).i("S", S).i("maxIt", maxIt).i("x0", m.x0).vec("r", m.script).b("ret", ret)
    .i("iters", (long long)m.getNumberOfIterations()).i("calls", (long long)m.calls).i("guesses", (long long)m.guesses)
    .i("est10", est10).b("rmseUnset", unset).i("mse2", mse2));
}

static void exec(vh::Rng & r, vh::Out & out)
{
  long long kp = r.range(-3, 3), ki = r.range(0, 3), kd = r.range(0, 2), lo8 = -8 * r.range(0, 20), hi8 = 8 * r.range(0, 20), eps = r.range(0, 3);
  int w = (int)r.range(0, 4);
  out.put(vh::Ev("Reset").i("kp", kp).i("ki", ki).i("kd", kd).i("imin8", lo8).i("imax8", hi8).i("eps", eps).i("w", w));
  PID pid((double)kp, (double)ki, (double)kd, lo8 / 8.0, hi8 / 8.0, (double)eps);
  FirstOrderButterworth f(w / 4.0);
  long long at = 0;
  int len = (int)r.range(1, 40);
  for (int s = 0; s < len; ++s) {
    int what = (int)r.range(0, 9);
    if (what < 5) {
      long long dt = r.range(1, 24);
      long long prevAt = at;
      at += dt;
      long long sp = r.range(-20, 20), meas = r.range(-20, 20);
      double o = pid.compute(durationFromNanoSecond(at * 125000000LL), (double)sp, (double)meas);
      bool ok = true;
      long long o8k = vh::proj(o * 8.0 * (double)(s == 0 && prevAt == 0 && false ? 1 : dt), ok, 1e-9);
      // before the first error is known the output is 0; dt is then irrelevant
      out.put(vh::Ev("pid").i("at", at).i("sp", sp).i("meas", meas).i("out8k", o8k).b("ex", ok));
    } else if (what < 8) {
      long long x = r.range(-16, 16);
      double v = f.update((double)x);
      // exact dyadic value: find the smallest power-of-two denominator
      long long den = 1; double num = v; bool ok = true;
      while (num != std::nearbyint(num) && den < (1LL << 30)) {num *= 2; den *= 2;}
      if (num != std::nearbyint(num) || std::fabs(num) > 2e9) {ok = false; num = 0; den = 1;}
      out.put(vh::Ev("filter").i("x", x).i("num", (long long)num).i("den", den).b("ex", ok));
      if (den > (1LL << 24)) {f.reset(); out.put(vh::Ev("freset"));}          // keep numerators within TLC's integers
    } else if (what == 8) {
      f.reset();
      out.put(vh::Ev("freset"));
    } else {
      // one-to-one filtering as ICP (by source) / RANSAC (by target) do it
      bool byTarget = r.coin();
      int n = (int)r.range(0, 30);
      std::vector<Correspondence> cs;
      for (int k = 0; k < n; ++k) {cs.push_back(Correspondence((size_t)r.range(0, 9), (size_t)r.range(0, 9), (double)r.range(0, 50)));}
      std::vector<IV> inp; for (auto & c : cs) {inp.push_back(IV{(long long)c.sourcePointIndex, (long long)c.targetPointIndex, (long long)c.squareDistanceBetweenPoints});}
      if (byTarget) {
        std::sort(cs.begin(), cs.end(), sortByTargetIndexAndDistancePredicate);
        cs.erase(std::unique(cs.begin(), cs.end(), equalTargetIndexesPredicate), cs.end());
      } else {
        std::sort(cs.begin(), cs.end(), sortBySourceIndexAndDistancePredicate);
        cs.erase(std::unique(cs.begin(), cs.end(), equalSourceIndexesPredicate), cs.end());
      }
      std::vector<IV> outp; for (auto & c : cs) {outp.push_back(IV{(long long)c.sourcePointIndex, (long long)c.targetPointIndex, (long long)c.squareDistanceBetweenPoints});}
      out.put(vh::Ev("onetoone").b("byTarget", byTarget).mat("inp", inp).mat("out", outp));
      long long us = r.range(-2000000, 2000000), ns = r.range(-2000000000LL, 2000000000LL);
      out.put(vh::Ev("duration").i("us", us).i("ns", ns).i("fromMicro", durationToNanoSecond(durationFromMicroSecond(us)))
        .i("toMicro", durationToMicroSecond(durationFromNanoSecond(ns))));
    }
  }
}

int main(int argc, char ** argv)
{
  if (argc != 5 || std::string(argv[1]) != "random") {std::fprintf(stderr, "usage: drive_extras random seed n out\n"); return 3;}
  vh::Rng r(std::strtoull(argv[2], nullptr, 10));
  int n = std::atoi(argv[3]);
  vh::Out out(argv[4]);
  for (int k = 0; k < n; ++k) {exec(r, out); if (k % 4 == 0) {ransac(r, out);} nlse(r, out);}
  std::printf("%lld\n", out.lines);
  return 0;
}
