// Driver for the specification-growth module spec/Extras.tla: PID, FirstOrderButterworth, the correspondence one-to-one
// filtering used by ICP / RANSAC, and Time.hpp duration conversions.   drive_extras random <seed> <n> <out.ndjson>
#include "vh.hpp"
#include <algorithm>
#include "romea_core_common/control/PID.hpp"
#include "romea_core_common/signal/FirstOrderButterworth.hpp"
#include "romea_core_common/pointset/algorithms/Correspondence.hpp"
#include "romea_core_common/time/Time.hpp"

using namespace romea::core;
using IV = std::vector<long long>;

static void exec(vh::Rng & r, vh::Out & out)
{
  long long kp = r.range(-3, 3), ki = r.range(0, 3), kd = r.range(0, 2), lo8 = -8 * r.range(0, 20), hi8 = 8 * r.range(0, 20), eps = r.range(0, 3);
  int w = (int)r.range(0, 4);
  out.put(vh::Ev("Reset").i("kp", kp).i("ki", ki).i("kd", kd).i("imin8", lo8).i("imax8", hi8).i("eps", eps).i("w", w));
  PID pid((double)kp, (double)ki, (double)kd, lo8 / 8.0, hi8 / 8.0, (double)eps);
  FirstOrderButterworth f(w / 4.0);
  long long at = 0;
  int len = (int)r.range(1, 40);
  for (int s = 0; s < len; ++s) {
    int what = (int)r.range(0, 9);
    if (what < 5) {
      long long dt = r.range(1, 24);
      long long prevAt = at;
      at += dt;
      long long sp = r.range(-20, 20), meas = r.range(-20, 20);
      double o = pid.compute(durationFromNanoSecond(at * 125000000LL), (double)sp, (double)meas);
      bool ok = true;
      long long o8k = vh::proj(o * 8.0 * (double)(s == 0 && prevAt == 0 && false ? 1 : dt), ok, 1e-9);
      // before the first error is known the output is 0; dt is then irrelevant
      out.put(vh::Ev("pid").i("at", at).i("sp", sp).i("meas", meas).i("out8k", o8k).b("ex", ok));
    } else if (what < 8) {
      long long x = r.range(-16, 16);
      double v = f.update((double)x);
      // exact dyadic value: find the smallest power-of-two denominator
      long long den = 1; double num = v; bool ok = true;
      while (num != std::nearbyint(num) && den < (1LL << 30)) {num *= 2; den *= 2;}
      if (num != std::nearbyint(num) || std::fabs(num) > 2e9) {ok = false; num = 0; den = 1;}
      out.put(vh::Ev("filter").i("x", x).i("num", (long long)num).i("den", den).b("ex", ok));
      if (den > (1LL << 24)) {f.reset(); out.put(vh::Ev("freset"));}          // keep numerators within TLC's integers
    } else if (what == 8) {
      f.reset();
      out.put(vh::Ev("freset"));
    } else {
      // one-to-one filtering as ICP (by source) / RANSAC (by target) do it
      bool byTarget = r.coin();
      int n = (int)r.range(0, 30);
      std::vector<Correspondence> cs;
      for (int k = 0; k < n; ++k) {cs.push_back(Correspondence((size_t)r.range(0, 9), (size_t)r.range(0, 9), (double)r.range(0, 50)));}
      std::vector<IV> inp; for (auto & c : cs) {inp.push_back(IV{(long long)c.sourcePointIndex, (long long)c.targetPointIndex, (long long)c.squareDistanceBetweenPoints});}
      if (byTarget) {
        std::sort(cs.begin(), cs.end(), sortByTargetIndexAndDistancePredicate);
        cs.erase(std::unique(cs.begin(), cs.end(), equalTargetIndexesPredicate), cs.end());
      } else {
        std::sort(cs.begin(), cs.end(), sortBySourceIndexAndDistancePredicate);
        cs.erase(std::unique(cs.begin(), cs.end(), equalSourceIndexesPredicate), cs.end());
      }
      std::vector<IV> outp; for (auto & c : cs) {outp.push_back(IV{(long long)c.sourcePointIndex, (long long)c.targetPointIndex, (long long)c.squareDistanceBetweenPoints});}
      out.put(vh::Ev("onetoone").b("byTarget", byTarget).mat("inp", inp).mat("out", outp));
      long long us = r.range(-2000000, 2000000), ns = r.range(-2000000000LL, 2000000000LL);
      out.put(vh::Ev("duration").i("us", us).i("ns", ns).i("fromMicro", durationToNanoSecond(durationFromMicroSecond(us)))
        .i("toMicro", durationToMicroSecond(durationFromNanoSecond(ns))));
    }
  }
}

int main(int argc, char ** argv)
{
  if (argc != 5 || std::string(argv[1]) != "random") {std::fprintf(stderr, "usage: drive_extras random seed n out\n"); return 3;}
  vh::Rng r(std::strtoull(argv[2], nullptr, 10));
  int n = std::atoi(argv[3]);
  vh::Out out(argv[4]);
  for (int k = 0; k < n; ++k) {exec(r, out);}
  std::printf("%lld\n", out.lines);
  return 0;
}
