// Conformance driver for GridIndexMapping<S,2/3> (C13) and RayCasting<S,2/3> (C14);
// spec/GridIndex.tla, spec/RayCast.tla.  All coordinates are integers in a sub-cell unit
// u = resolution / R (R even): the code sees k * u, TLC sees k.
//   drive_grid random <seed> <nexec> <mode: index|ray|both> <out.ndjson>
//   drive_grid exhaustive <dim> <R> <lo> <hi> <out.ndjson>     every origin/end pair of a small grid
#include "vh.hpp"
#include <limits>
#include <memory>
#include "romea_core_common/containers/grid/GridIndexMapping.hpp"
#include "romea_core_common/containers/grid/RayTracing.hpp"

using namespace romea::core;
using IV = std::vector<long long>;

template<class S, size_t DIM>
struct G
{
  using Map = GridIndexMapping<S, DIM>;
  using P = typename Map::PointType;
  using CI = typename Map::CellIndexes;
  double u;          // unit
  long long R;
  bool nd;
  IV lo, hi;
  std::vector<std::unique_ptr<Map>> oldMaps;
  std::unique_ptr<Map> map;
  std::unique_ptr<RayCasting<S, DIM>> ray;
  IV origin, lastEnd;

  // a coordinate is "exact" when it is within 16 ulps (of the largest coordinate of the grid) of an integer number of units
  long long units(double x, bool & ok) const
  {
    double m = (double)R;
    for (size_t a = 0; a < DIM; ++a) {m = std::max({m, std::fabs((double)lo[a]), std::fabs((double)hi[a])});}
    double r = std::nearbyint(x / u);
    if (!(std::fabs(x / u - r) <= 16 * (double)std::numeric_limits<S>::epsilon() * m + 1e-9)) {ok = false;}
    return (long long)r;
  }
  P pt(const IV & k) const {P p; for (size_t a = 0; a < DIM; ++a) {p[a] = (S)((double)k[a] * u);} return p;}
  static IV iv(const CI & c) {IV v; for (size_t a = 0; a < DIM; ++a) {v.push_back((long long)c[a]);} return v;}

  G(double unit, long long r, bool ndflag, const IV & l, const IV & h, bool symmetric) : u(unit), R(r), nd(ndflag), lo(l), hi(h)
  {
    S res = (S)((double)R * u);
    // the mapping under test is built directly, or is a copy (copy construction / default construction + copy assignment) of a
    // mapping which is afterwards re-assigned to a grid with the same cell counts elsewhere: a copy owns its tables
    static size_t variant = 0;
    const size_t how = variant++ % 4;
    std::unique_ptr<Map> src(symmetric ? new Map((S)((double)h[0] * u), res) : new Map(Interval<S, DIM>(pt(lo), pt(hi)), res));
    if (how == 0 || how == 3) {map = std::move(src);} else {
      if (how == 1) {map.reset(new Map(*src));} else {map.reset(new Map()); *map = *src;}
      IV l2 = lo, h2 = hi;
      for (size_t a = 0; a < DIM; ++a) {long long shift = 7 * R * (hi[a] + 7 * R <= 1000 * R ? 1 : -1); l2[a] += shift; h2[a] += shift;}
      *src = Map(Interval<S, DIM>(pt(l2), pt(h2)), res);
      oldMaps.push_back(std::move(src));
    }
    if (((long long)(lo[0] + hi[0]) & 1) == 0) {ray.reset(new RayCasting<S, DIM>(map.get()));}
    else {ray.reset(new RayCasting<S, DIM>()); ray->setGridIndexMapping(map.get());}          // both construction paths
  }
  // point the same caster at another grid (same unit, other resolution / extent); the old mapping stays alive
  std::string regrid(long long newR, const IV & l, const IV & h)
  {
    oldMaps.push_back(std::move(map));
    R = newR; lo = l; hi = h;
    map.reset(new Map(Interval<S, DIM>(pt(lo), pt(hi)), (S)((double)R * u)));
    ray->setGridIndexMapping(map.get());
    std::string line = reset(false);
    return std::string("{\"e\":\"regrid\"") + line.substr(line.find(','));
  }
  std::string reset(bool symmetric) const
  {
    IV nc = iv(map->getNumberOfCellsAlongAxes()), c0;
    bool exact = true;
    for (size_t a = 0; a < DIM; ++a) {
      bool ok = true;
      c0.push_back(units((double)map->getCellCentersPositionAlong(a)[0], ok));
      exact = exact && ok && map->getCellCentersPositionAlong(a).size() == (size_t)nc[a];
    }
    return vh::Ev("Reset").i("dim", DIM).i("R", R).vec("lo", lo).vec("hi", hi).b("nd", nd).vec("ncells", nc).vec("c0", c0)
           .b("exact", exact).b("sym", symmetric).i("float", sizeof(S) == 4).done();
  }
  std::string index(const IV & p) const
  {
    return vh::Ev("index").vec("p", p).vec("idx", iv(map->computeCellIndexes(pt(p)))).done();
  }
  std::string centre(const IV & kk) const
  {
    CI c; for (size_t a = 0; a < DIM; ++a) {c[a] = (size_t)kk[a];}
    // two centres held at the same time through whatever the accessor returns (no copies): each keeps its own value
    CI other; for (size_t a = 0; a < DIM; ++a) {other[a] = (size_t)kk[a] > 0 ? 0 : map->getNumberOfCellsAlongAxes()[a] - 1;}
    const auto & x = map->computeCellCenterPosition(c);
    const auto & xo = map->computeCellCenterPosition(other);
    IV out; bool exact = true;
    for (size_t a = 0; a < DIM; ++a) {if (xo[a] != map->getCellCentersPositionAlong(a)[other[a]]) {exact = false;}}
    for (size_t a = 0; a < DIM; ++a) {bool ok = true; out.push_back(units((double)x[a], ok)); exact = exact && ok;}
    IV tab; for (size_t a = 0; a < DIM; ++a) {bool ok = true; tab.push_back(units((double)map->getCellCentersPositionAlong(a)[(size_t)kk[a]], ok)); exact = exact && ok;}
    return vh::Ev("centre").vec("kk", kk).vec("c", out).vec("tab", tab).b("exact", exact).done();
  }
  // one cast through one of the API paths; every cell it returns becomes a step event
  void cast(int how, const IV & o, const IV & e, vh::Out & out)
  {
    using Cells = VectorOfEigenVector<CI>;
    Cells cells;
    bool originSet = how != 1 || origin.empty();
    if (how == 4 && !lastEnd.empty()) {           // a polyline: the caster's own previous end point handed back as the new origin
      cells = ray->cast(ray->getEndPoint(), pt(e));
      origin = lastEnd; originSet = true;
    } else if (how == 5 && !origin.empty()) {     // the caster's own origin handed back
      cells = ray->cast(ray->getOriginPoint(), pt(e));
      originSet = true;
    } else if (how == 0 || how >= 4) {            // cast(origin, end)
      cells = ray->cast(pt(o), pt(e));
      origin = o; originSet = true;
    } else if (how == 1 && !origin.empty()) {     // cast(end) from the origin set earlier
      cells = ray->cast(pt(e));
    } else if (how == 2) {                        // setOrigin + setEnd + next() loop
      ray->setOriginPoint(pt(o)); origin = o;
      ray->setEndPoint(pt(e));
      size_t n = ray->computeRayNumberOfCells();
      CI c = ray->getOriginPointIndexes();
      cells.push_back(c);
      for (size_t i = 1; i < n; ++i) {ray->next(c); cells.push_back(c);}
    } else {                                      // setOrigin + cast(end)
      ray->setOriginPoint(pt(o)); origin = o;
      cells = ray->cast(pt(e));
    }
    lastEnd = e;
    if (originSet) {out.put(vh::Ev("setOrigin").vec("p", origin).vec("idx", iv(ray->getOriginPointIndexes())));}
    out.put(vh::Ev("setEnd").vec("p", e).vec("idx", iv(ray->getEndPointIndexes())).vec("first", cells.empty() ? IV(DIM, -1) : iv(cells[0])));
    for (size_t i = 1; i < cells.size(); ++i) {out.put(vh::Ev("step").vec("cell", iv(cells[i])));}
    // the same cast on a freshly constructed caster
    RayCasting<S, DIM> fresh(map.get());
    Cells f = fresh.cast(pt(origin), pt(e));
    bool same = f.size() == cells.size();
    for (size_t i = 0; same && i < f.size(); ++i) {same = f[i] == cells[i];}
    out.put(vh::Ev("endCast").i("n", (long long)cells.size()).b("same", same));
  }
};

static const double DYADIC[] = {1, 0.5, 0.25, 0.125, 0.0625, 0.03125};
static const double DECIMAL[] = {1, 0.5, 0.25, 0.2, 0.1, 0.05, 0.04, 0.02, 0.01, 0.3, 0.7, 1e-3, 2e-3, 5e-3, 3, 10};

template<class S, size_t DIM>
static void randomExec(vh::Rng & r, const std::string & mode, vh::Out & out)
{
  bool nd = r.coin();
  long long R = r.pick(std::vector<long long>{2, 4, 8});
  double res = nd ? r.pick(std::vector<double>(DECIMAL, DECIMAL + 16)) : r.pick(std::vector<double>(DYADIC, DYADIC + 6)) * r.pick(std::vector<double>{1, 2, 4});
  bool rays = mode == "ray" || (mode == "both" && r.coin());
  if (rays && nd) {while (res < 0.01 || res > 1) {res = r.pick(std::vector<double>(DECIMAL, DECIMAL + 16));}}
  double u = res / R;
  // extent in units: rays need |coordinates| <= 8000 units (32-bit products in TLC); index runs go to +-1000 / 1e7 cells
  long long maxUnits = rays ? (sizeof(S) == 4 ? 50 : (r.coin(1, 4) ? 8000 : 600))   // float: distinct parameters must differ by far more than the accumulated float rounding
                            : (long long)std::min({1000.0 / u, 4.0e6, sizeof(S) == 4 ? 60000.0 : 4.0e6});
  if (DIM == 3 && !rays) {maxUnits = std::min(maxUnits, 200 * R);}
  bool sym = r.coin(1, 4);
  IV lo, hi;
  for (size_t a = 0; a < DIM; ++a) {
    long long x = r.range(-maxUnits, maxUnits), y = r.range(-maxUnits, maxUnits);
    if (r.coin(1, 3)) {x = (x / R) * R;}                   // exact multiples and half-multiples of the resolution
    if (r.coin(1, 3)) {y = (y / (R / 2)) * (R / 2);}
    lo.push_back(std::min(x, y)); hi.push_back(std::max(x, y));
  }
  if (!sym && r.coin(1, 4)) {                                 // same width on every axis, different offsets: equal cell counts, different first cells
    long long w = (hi[0] - lo[0]) / R * R;
    for (size_t a = 1; a < DIM; ++a) {long long sh = r.range(-20, 20) * R; lo[a] = std::max(-maxUnits, std::min(maxUnits - w, lo[0] + sh)); hi[a] = lo[a] + w;}
  }
  if (sym) {long long m = std::max<long long>(1, std::llabs(hi[0])); lo.assign(DIM, -m); hi.assign(DIM, m);}
  // keep the number of cells per axis reasonable for the centre tables (<= 1e7 overall is the property's bound)
  G<S, DIM> g(u, R, nd, lo, hi, sym);
  out.puts(g.reset(sym));
  auto point = [&](int style) {
      IV p;
      for (size_t a = 0; a < DIM; ++a) {
        long long x = r.range(lo[a], hi[a]);
        if (style == 1) {x = lo[a];} else if (style == 2) {x = hi[a];}
        else if (style == 3) {long long b = ((x + R / 2) / R) * R - R / 2; x = std::min(hi[a], std::max(lo[a], b)); }   // a cell border
        else if (style == 4) {long long c = (x / R) * R; x = std::min(hi[a], std::max(lo[a], c));}                     // a cell centre
        p.push_back(x);
      }
      return p;
    };
  if (!rays) {
    int n = (int)r.range(5, 40);
    for (int i = 0; i < n; ++i) {out.puts(g.index(point((int)r.range(0, 5))));}
    IV nc = G<S, DIM>::iv(g.map->getNumberOfCellsAlongAxes());
    for (int i = 0; i < 6; ++i) {
      IV kk; for (size_t a = 0; a < DIM; ++a) {kk.push_back(i == 0 ? 0 : i == 1 ? nc[a] - 1 : r.range(0, nc[a] - 1));}
      out.puts(g.centre(kk));
      // the centre must map back to its own cell
      typename G<S, DIM>::CI ci; for (size_t a = 0; a < DIM; ++a) {ci[a] = (size_t)kk[a];}
      auto x = g.map->computeCellCenterPosition(ci);
      IV p; for (size_t a = 0; a < DIM; ++a) {p.push_back((long long)std::llround((double)x[a] / u));}
      out.puts(g.index(p));
    }
    return;
  }
  if (sizeof(S) == 4 && !nd && DIM == 2 && r.coin(1, 3)) {
    // long grazing float rays: ~3000 units along one axis, one unit across, the end exactly on the border it reaches
    IV gl{-1900, -1900}, gh{1900, 1900};
    out.puts(g.regrid(8, gl, gh));
    lo = gl; hi = gh;
    for (int i = 0; i < 3; ++i) {
      int major = (int)r.range(0, 1), minor = 1 - major;
      long long len = r.range(2950, 3500), start = -1800 + r.range(0, 100);
      start = (start / 8) * 8;                                       // a cell centre
      long long b = ((r.range(-1500, 1500) / 8) * 8) + 4;              // a border of the minor axis (borders are at 8k + 4)
      int dirM = r.coin() ? 1 : -1, dirm = r.coin() ? 1 : -1;
      IV o(2), e(2);
      o[major] = dirM > 0 ? start : -start; e[major] = o[major] + dirM * ((len / 8) * 8);     // both ends at cell centres of the major axis
      o[minor] = b - dirm; e[minor] = b;                               // one unit across, ending on the border
      if (dirm < 0) {o[minor] = b; e[minor] = b - 1;}                  // or starting on it
      g.cast(0, o, e, out);
    }
    return;
  }
  int ncasts = (int)r.range(1, 6);
  for (int i = 0; i < ncasts; ++i) {
    if (i > 0 && !nd && r.coin(1, 4)) {
      // the caster is pointed at another grid; the next cast uses the SAME origin point half of the time
      long long nR = R == 2 ? 8 : 2;
      IV nl = lo, nh = hi; for (size_t a = 0; a < DIM; ++a) {nl[a] -= r.range(0, 40); nh[a] += r.range(0, 40);}
      IV keep = g.origin;
      out.puts(g.regrid(nR, nl, nh));
      lo = nl; hi = nh; R = nR;
      IV e2 = point((int)r.range(0, 5));
      IV o2 = (!keep.empty() && r.coin()) ? keep : point(0);
      g.cast(r.coin() ? 0 : 3, o2, e2, out);
      continue;
    }
    IV o = point((int)r.range(0, 5)), e = point((int)r.range(0, 5));
    int shape = (int)r.range(0, 6);
    if (shape == 0) {e = o;}                                                    // coincident
    if (shape == 1) {e[0] = o[0];}                                              // axis-aligned
    if (shape == 2) {long long d = e[0] - o[0]; for (size_t a = 1; a < DIM; ++a) {e[a] = std::min(hi[a], std::max(lo[a], o[a] + (r.coin() ? d : -d)));}}   // diagonal
    g.cast((int)r.range(0, 5), o, e, out);
  }
}

// Generic (non-lattice) grids: real-valued bounds in [-1000, 1000], real-valued resolutions in [1e-3, 10], at most 1e7 cells - among
// them grids with one axis of more than a million cells.  The relations of C13 are measured as residuals in units of
// eps * max(1, largest |bound|) (what one rounding of a coordinate of that size costs); the specification bounds them (GenericOK).
template<class S, size_t DIM>
static void genericIndex(vh::Rng & r, vh::Out & out)
{
  using Map = GridIndexMapping<S, DIM>;
  using P = typename Map::PointType;
  using CI = typename Map::CellIndexes;
  auto uni = [&](double a, double b) {return a + (b - a) * ((double)r.range(0, 1000000000) / 1e9);};
  S res = (S)(r.coin(1, 3) ? r.pick(std::vector<double>(DECIMAL, DECIMAL + 16)) : std::pow(10.0, uni(-3, 1)));
  const bool sym = r.coin(1, 4), longAxis = !sym && r.coin(1, 3);
  // cells allowed per axis so that the whole grid stays below 1e7 cells
  double perAxis = std::pow(8.0e6, 1.0 / DIM);
  P lo, hi;
  for (size_t a = 0; a < DIM; ++a) {
    double maxLen = std::min(2000.0, (double)res * ((longAxis ? (a == 0 ? 2.4e6 : 1.2) : perAxis) - 2));
    double len = r.coin(1, 3) ? maxLen : uni(0, maxLen);
    double l = uni(-1000, 1000 - len);
    if (r.coin(1, 4)) {l = std::floor(l / (double)res) * (double)res; if (l < -1000) {l += (double)res;}}     // a bound that is (nearly) a multiple of the resolution
    lo[a] = (S)l; hi[a] = (S)std::min(1000.0, l + len);
    if (hi[a] < lo[a]) {hi[a] = lo[a];}
  }
  std::unique_ptr<Map> map;
  if (sym) {
    S range = (S)std::min({1000.0, (double)res * (perAxis / 2 - 2), uni(0, 1000)});
    for (size_t a = 0; a < DIM; ++a) {lo[a] = -range; hi[a] = range;}
    map.reset(new Map(range, res));
  } else {map.reset(new Map(Interval<S, DIM>(lo, hi), res));}
  const CI nc = map->getNumberOfCellsAlongAxes();
  double scale = 1; for (size_t a = 0; a < DIM; ++a) {scale = std::max({scale, std::fabs((double)lo[a]), std::fabs((double)hi[a])});}
  const double unit = (double)std::numeric_limits<S>::epsilon() * scale;
  auto inUnits = [&](double x) {double v = x <= 0 ? 0 : std::ceil(x / unit); return v < 1e9 ? (long long)v : 1000000000LL;};
  bool inRange = true, back = true, tabSame = true;
  double half = 0, spacing = 0, coverLo = 0, coverHi = 0;
  long long total = 1; for (size_t a = 0; a < DIM; ++a) {total *= (long long)nc[a];}
  // points of the closed extent: corners, bounds, cell-border-like values, random
  for (int k = 0; k < 1500; ++k) {
    P p;
    for (size_t a = 0; a < DIM; ++a) {
      int st = (int)r.range(0, 6);
      double x = st == 0 ? (double)lo[a] : st == 1 ? (double)hi[a] : uni((double)lo[a], (double)hi[a]);
      if (st == 2) {x = std::nearbyint(x / (double)res) * (double)res;}                      // near a multiple of the resolution
      if (st == 3) {x = (std::nearbyint(x / (double)res) + 0.5) * (double)res;}                // near a half-multiple
      p[a] = (S)x; if (p[a] < lo[a]) {p[a] = lo[a];} if (p[a] > hi[a]) {p[a] = hi[a];}
    }
    CI idx = map->computeCellIndexes(p);
    bool ok = true; for (size_t a = 0; a < DIM; ++a) {ok = ok && idx[a] < nc[a];}
    inRange = inRange && ok;
    if (ok) {
      P c = map->computeCellCenterPosition(idx);
      for (size_t a = 0; a < DIM; ++a) {half = std::max(half, std::fabs((double)p[a] - (double)c[a]) - (double)res / 2);}
    }
  }
  // centres: map back, spacing, both accessors, coverage of the bounds
  for (size_t a = 0; a < DIM; ++a) {
    const size_t n = nc[a];
    if (n == 0 || map->getCellCentersPositionAlong(a).size() != n) {back = false; continue;}
    std::vector<size_t> ks;
    if (n <= 3000) {for (size_t k = 0; k < n; ++k) {ks.push_back(k);}} else {
      for (size_t k = 0; k < 400; ++k) {ks.push_back(k); ks.push_back(n - 1 - k);}
      for (int k = 0; k < 2000; ++k) {ks.push_back((size_t)r.range(0, (long long)n - 1));}
    }
    for (size_t k : ks) {
      CI idx = CI::Zero(); idx[a] = k;
      P c = map->computeCellCenterPosition(idx);
      if (c[a] != map->getCellCentersPositionAlong(a)[k]) {tabSame = false;}
      CI b = map->computeCellIndexes(c);
      if (b[a] != k) {back = false;}
      if (k + 1 < n) {
        CI nx = idx; nx[a] = k + 1;
        spacing = std::max(spacing, std::fabs(((double)map->computeCellCenterPosition(nx)[a] - (double)c[a]) - (double)res));
      }
    }
    CI z = CI::Zero(); double c0 = (double)map->computeCellCenterPosition(z)[a];
    z[a] = n - 1; double cl = (double)map->computeCellCenterPosition(z)[a];
    coverLo = std::max({coverLo, c0 - (double)res / 2 - (double)lo[a], (double)lo[a] - (double)res - (c0 + (double)res / 2)});
    coverHi = std::max({coverHi, (double)hi[a] - (cl + (double)res / 2), cl - (double)res / 2 - ((double)hi[a] + (double)res)});
  }
  out.put(vh::Ev("generic").i("dim", DIM).i("float", sizeof(S) == 4).b("sym", sym).i("cells", total).b("inRange", inRange).b("back", back)
    .b("tabSame", tabSame).vec("res", IV{inUnits(half), inUnits(spacing), inUnits(coverLo), inUnits(coverHi)}));
}

// Generic (non-lattice) rays on large grids with decimal resolutions, single and double precision: short rays anywhere in the
// grid - in particular in cells of high index, far from the grid's first cell - with end points at least 5 % of a cell away from
// the cell borders.  The cast must start in the origin's cell, end in the end point's cell, step through face-adjacent cells
// without detour, and every cell must be met by the segment (boxes inflated by 0.5 % of a cell).  Reference: the nominal grid in
// double, anchored at the first cell centre the mapping reports.
template<class S, size_t DIM>
static void genericRay(vh::Rng & r, vh::Out & out)
{
  using Map = GridIndexMapping<S, DIM>;
  using P = typename Map::PointType;
  using CI = typename Map::CellIndexes;
  auto uni = [&](double a, double b) {return a + (b - a) * ((double)r.range(0, 1000000000) / 1e9);};
  const double res = r.pick(std::vector<double>{0.01, 0.02, 0.05, 0.1, 0.25, 0.3, 1.0});
  const double maxCells = DIM == 2 ? 2000 : 200;
  P lo, hi;
  for (size_t a = 0; a < DIM; ++a) {
    double len = res * uni(0.3, 1.0) * maxCells, l = -uni(0.2, 0.8) * len;
    lo[a] = (S)l; hi[a] = (S)(l + len);
  }
  Map map(Interval<S, DIM>(lo, hi), (S)res);
  RayCasting<S, DIM> ray(&map);
  const CI nc = map.getNumberOfCellsAlongAxes();
  double c0[DIM]; for (size_t a = 0; a < DIM; ++a) {c0[a] = (double)map.getCellCentersPositionAlong(a)[0];}
  const double rs = (double)(S)res;
  bool startOK = true, endOK = true, adjacent = true, meets = true, minimal = true;
  int ncasts = 0;
  for (int t = 0; t < 12; ++t) {
    long long ko[DIM], ke[DIM]; P o, e;
    const int region = (int)r.range(0, 2);                              // near the first cells, near the last cells, anywhere
    for (size_t a = 0; a < DIM; ++a) {
      const long long n = (long long)nc[a];
      if (n < 16) {ko[a] = r.range(0, n - 1);} else {ko[a] = region == 0 ? r.range(1, 12) : region == 1 ? n - 2 - r.range(0, 12) : r.range(1, n - 2);}
      ke[a] = std::max(0LL, std::min(n - 1, ko[a] + (r.coin(1, 4) ? 0 : r.range(-6, 6))));
      o[a] = (S)(c0[a] + ((double)ko[a] + uni(-0.45, 0.45)) * rs);
      e[a] = (S)(c0[a] + ((double)ke[a] + uni(-0.45, 0.45)) * rs);
    }
    // the cells the (rounded) points really are in; skip rays whose ends came within 2 % of a border after rounding
    bool clear = true;
    for (size_t a = 0; a < DIM; ++a) {
      for (const double v : {(double)o[a], (double)e[a]}) {double f = (v - c0[a]) / rs + 0.5; f -= std::floor(f); if (f < 0.02 || f > 0.98) {clear = false;}}
      ko[a] = (long long)std::floor(((double)o[a] - c0[a]) / rs + 0.5); ke[a] = (long long)std::floor(((double)e[a] - c0[a]) / rs + 0.5);
    }
    if (!clear) {continue;}
    ++ncasts;
    VectorOfEigenVector<CI> cells;
    const int how = (int)r.range(0, 2);
    if (how == 0) {cells = ray.cast(o, e);} else if (how == 1) {ray.setOriginPoint(o); cells = ray.cast(e);}
    else {RayCasting<S, DIM> fresh(&map); cells = fresh.cast(o, e);}
    if (cells.empty()) {startOK = false; continue;}
    long long manhattan = 0;
    for (size_t a = 0; a < DIM; ++a) {
      if ((long long)cells.front()[a] != ko[a]) {startOK = false;}
      if ((long long)cells.back()[a] != ke[a]) {endOK = false;}
      manhattan += std::llabs(ke[a] - ko[a]);
    }
    if ((long long)cells.size() != manhattan + 1) {minimal = false;}
    for (size_t i = 0; i < cells.size(); ++i) {
      if (i > 0) {
        long long d = 0; for (size_t a = 0; a < DIM; ++a) {d += std::llabs((long long)cells[i][a] - (long long)cells[i - 1][a]);}
        if (d != 1) {adjacent = false;}
      }
      // slab test of the segment against the cell's box inflated by 0.5 % of a cell
      double t0 = 0, t1 = 1; bool hit = true;
      for (size_t a = 0; a < DIM; ++a) {
        const double bl = c0[a] + ((double)cells[i][a] - 0.505) * rs, bh = c0[a] + ((double)cells[i][a] + 0.505) * rs;
        const double p0 = (double)o[a], d = (double)e[a] - p0;
        if (d == 0) {if (p0 < bl || p0 > bh) {hit = false;}} else {
          double ta = (bl - p0) / d, tb = (bh - p0) / d; if (ta > tb) {std::swap(ta, tb);}
          t0 = std::max(t0, ta); t1 = std::min(t1, tb);
        }
      }
      if (!hit || t0 > t1) {meets = false;}
    }
  }
  out.put(vh::Ev("genericray").i("dim", DIM).i("float", sizeof(S) == 4).i("casts", ncasts).b("startOK", startOK).b("endOK", endOK).b("adjacent", adjacent)
    .b("meets", meets).b("minimal", minimal));
}

template<class S, size_t DIM>
static void exhaustive(long long R, long long lo, long long hi, vh::Out & out)
{
  IV l(DIM, lo), h(DIM, hi);
  G<S, DIM> g(0.125, R, false, l, h, false);
  out.puts(g.reset(false));
  long long n = hi - lo + 1, total = 1;
  for (size_t a = 0; a < DIM; ++a) {total *= n;}
  int how = 0;
  for (long long i = 0; i < total; ++i) {
    IV o; long long c = i; for (size_t a = 0; a < DIM; ++a) {o.push_back(lo + c % n); c /= n;}
    for (long long j = 0; j < total; ++j) {
      IV e; long long d = j; for (size_t a = 0; a < DIM; ++a) {e.push_back(lo + d % n); d /= n;}
      g.cast(how = (how + 1) % 4, o, e, out);
    }
  }
}

int main(int argc, char ** argv)
{
  std::string mode = argc > 1 ? argv[1] : "";
  if (mode == "random" && argc == 6) {
    vh::Rng r(std::strtoull(argv[2], nullptr, 10));
    int nexec = std::atoi(argv[3]);
    vh::Out out(argv[5]);
    if (std::string(argv[4]) == "genericray") {
      for (int i = 0; i < nexec; ++i) {
        if (i % 40 == 0) {
          out.put(vh::Ev("Reset").i("dim", 2).i("R", 2).vec("lo", IV{0, 0}).vec("hi", IV{2, 2}).b("nd", false).vec("ncells", IV{2, 2}).vec("c0", IV{0, 0})
            .b("exact", true).b("sym", false).i("float", 0));
        }
        switch (i % 4) {
          case 0: genericRay<float, 2>(r, out); break;
          case 1: genericRay<double, 2>(r, out); break;
          case 2: genericRay<float, 3>(r, out); break;
          default: genericRay<double, 3>(r, out);
        }
      }
      std::printf("%lld\n", out.lines);
      return 0;
    }
    if (std::string(argv[4]) == "generic") {
      for (int i = 0; i < nexec; ++i) {
        if (i % 40 == 0) {
          out.put(vh::Ev("Reset").i("dim", 2).i("R", 2).vec("lo", IV{0, 0}).vec("hi", IV{2, 2}).b("nd", false).vec("ncells", IV{2, 2}).vec("c0", IV{0, 0})
            .b("exact", true).b("sym", false).i("float", 0));
        }
        switch (i % 4) {
          case 0: genericIndex<double, 2>(r, out); break;
          case 1: genericIndex<float, 2>(r, out); break;
          case 2: genericIndex<double, 3>(r, out); break;
          default: genericIndex<float, 3>(r, out);
        }
      }
      std::printf("%lld\n", out.lines);
      return 0;
    }
    for (int i = 0; i < nexec; ++i) {
      switch (r.range(0, 3)) {
        case 0: randomExec<double, 2>(r, argv[4], out); break;
        case 1: randomExec<double, 3>(r, argv[4], out); break;
        case 2: randomExec<float, 2>(r, argv[4], out); break;
        default: randomExec<float, 3>(r, argv[4], out);
      }
    }
    std::printf("%lld\n", out.lines);
    return 0;
  }
  if (mode == "exhaustive" && argc == 8) {
    int dim = std::atoi(argv[2]); bool flt = std::string(argv[7]) == "float";
    vh::Out out(argv[6]);
    long long R = std::atoll(argv[3]), lo = std::atoll(argv[4]), hi = std::atoll(argv[5]);
    if (dim == 2 && !flt) {exhaustive<double, 2>(R, lo, hi, out);} else if (dim == 2) {exhaustive<float, 2>(R, lo, hi, out);}
    else if (!flt) {exhaustive<double, 3>(R, lo, hi, out);} else {exhaustive<float, 3>(R, lo, hi, out);}
    std::printf("%lld\n", out.lines);
    return 0;
  }
  std::fprintf(stderr, "usage: see header comment\n");
  return 3;
}
