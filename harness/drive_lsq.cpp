// Conformance driver for LeastSquares<float/double> (C07, solver-covariance clause of C12; spec/LsqBuffers.tla).
//   drive_lsq random <seed> <nexec> <out.ndjson>
// Integer problems with integer minimisers: Y = J z* + r with J^T r = 0 (r lives on duplicated rows),
// preconditioner x = A z + b with integer diagonal A.
#include "vh.hpp"
#include <Eigen/SVD>
#include <memory>
#include <Eigen/Dense>
#include "romea_core_common/regression/leastsquares/LeastSquares.hpp"

using namespace romea::core;
using IV = std::vector<long long>;

template<class R>
static void exec(vh::Rng & r, vh::Out & out)
{
  const double tol = sizeof(R) == 4 ? 1e-2 : 1e-8;
  int est = (int)(r.coin(1, 3) ? r.range(1, 2) : r.range(1, 8));
  std::unique_ptr<LeastSquares<R>> ls;
  int ctor = (int)r.range(0, 2);
  out.put(vh::Ev("Reset").i("est", est).i("float", sizeof(R) == 4).i("ctor", ctor));
  size_t cap = 0;
  if (ctor == 0) {ls.reset(new LeastSquares<R>(est));} else if (ctor == 1) {
    ls.reset(new LeastSquares<R>()); ls->setEstimateSize(est);
  } else {
    int n0 = (int)r.range(est, 12);
    ls.reset(new LeastSquares<R>(est, n0));
    cap = n0;
    out.put(vh::Ev("setDataSize").i("n", n0).b("grew", true));           // constructing with a data size allocates the rows
  }
  IV A(est, 1), B(est, 0);
  typename LeastSquares<R>::Matrix * Jref = nullptr; typename LeastSquares<R>::Vector * Yref = nullptr; int lastN = 0;
  int nproblems = (int)r.range(1, 5);
  for (int p = 0; p < nproblems; ++p) {
    // data sizes: mostly small, sometimes anywhere up to 500, sometimes at / next to the block sizes a vectorised or blocked
    // reduction would use (powers of two, multiples of 128) and at the top of the quantified range
    int n = (int)(r.coin(1, 8) ? est : r.coin(1, 12) ? r.range(est, 500) : r.coin(1, 10) ? r.pick(IV{16, 32, 64, 127, 128, 129, 255, 256, 257, 383, 384, 385, 499, 500}) :
      r.range(est, est + 30));
    // est 2, sometimes: two exactly orthogonal columns (+1.., +1 -1 +1 -1..) over an even number of rows - the normal matrix is exactly
    // diagonal whatever the scale of each column, so its inverse and the covariance are exact in either precision
    const bool ortho = est == 2 && r.coin(1, 5);
    if (ortho) {n = (int)r.pick(IV{4, 16, 64, 130, 256, 300, 500});}
    // a caller may keep the references the non-const accessors hand out and write the next problem of the same size through them,
    // without announcing anything to the solver
    const bool silent = !ortho && p > 0 && Jref && r.coin(1, 3);
    if (silent) {n = lastN;}
    bool grew = false;
    if (!silent) {
      grew = ls->setDataSize(n);
      out.put(vh::Ev("setDataSize").i("n", n).b("grew", grew));
      Jref = &ls->getJ(); Yref = &ls->getY();
    }
    lastN = n;
    if ((size_t)n > cap) {cap = n;}
    if (grew) {
      bool ones = true;
      for (int i = 0; i < n; ++i) {ones = ones && ls->getW()(i) == 1;}
      out.put(vh::Ev("weights").b("ones", ones));
    }
    if (r.coin(1, 2)) {
      const bool noOffset = r.coin(1, 3);                  // then the one-argument overload is used: it must clear an earlier offset
      for (int k = 0; k < est; ++k) {A[k] = r.pick(IV{1, 2, -1, 4, 3, -2}); B[k] = noOffset ? 0 : r.range(-5, 5);}
      typename LeastSquares<R>::Matrix Ac = LeastSquares<R>::Matrix::Zero(est, est);
      typename LeastSquares<R>::Vector Bc(est);
      for (int k = 0; k < est; ++k) {Ac(k, k) = (R)A[k]; Bc(k) = (R)B[k];}
      bool allZeroB = true; for (auto v : B) {allZeroB = allZeroB && v == 0;}
      if (allZeroB && (noOffset || r.coin())) {ls->setPreconditionner(Ac);} else {ls->setPreconditionner(Ac, Bc);}
      out.put(vh::Ev("precond").vec("a", A).vec("b", B));
    }
    // the problem
    IV z(est); for (auto & v : z) {v = r.range(-9, 9);}
    std::vector<IV> rows(n, IV(est, 0));
    IV y(n, 0), w(n, 1);
    bool weighted = r.coin(1, 3) && !(est == 2 && false);
    // the whole problem (J and Y) scaled by a power of two: the minimiser is unchanged, the arithmetic stays exact
    const double pscale = r.coin(1, 4) ? (sizeof(R) == 8 ? r.pick(std::vector<double>{std::ldexp(1.0, -23), std::ldexp(1.0, -12), 1024.0}) :
      r.pick(std::vector<double>{std::ldexp(1.0, -12), 64.0})) : 1.0;
    // one or two columns of J scaled by 2^-c (the minimiser scales by 2^c, exactly): condition numbers up to the top of the
    // quantified range (double) / up to where the float normal equations still determine the answer.  Only without preconditioner.
    std::vector<int> cs(est, 0);
    bool identityPre = true; for (int k = 0; k < est; ++k) {identityPre = identityPre && A[k] == 1 && B[k] == 0;}
    const bool colscale = identityPre && est >= 2 && pscale == 1.0 && (r.coin(1, 3) || ortho);
    if (ortho) {
      for (int i = 0; i < n; ++i) {rows[i][0] = 1; rows[i][1] = i % 2 ? -1 : 1;}
    } else if (n == est && est >= 2 && r.coin(2, 3)) {
      // an exactly determined problem with a general (non-symmetric, non-diagonal) square matrix of full rank
      for (;;) {
        Eigen::MatrixXd M(est, est);
        for (int i = 0; i < est; ++i) {for (int k = 0; k < est; ++k) {rows[i][k] = r.range(-3, 3); M(i, k) = (double)rows[i][k];}}
        Eigen::JacobiSVD<Eigen::MatrixXd> sv(M);
        if (sv.singularValues()(est - 1) > 0.2 && sv.singularValues()(0) / sv.singularValues()(est - 1) < 40) {break;}
      }
    } else
    for (int i = 0; i < n; ++i) {
      if (i < est) {rows[i][i] = r.range(1, 3);} else if (i % 2 == 1 && i > est && r.coin()) {rows[i] = rows[i - 1];}      // duplicated row
      else {for (auto & v : rows[i]) {v = r.range(-3, 3);}}
    }
    for (int i = 0; i < n; ++i) {
      long long d = 0; for (int k = 0; k < est; ++k) {d += rows[i][k] * z[k];}
      y[i] = d;
      // weights of either sign; rows beyond the first est (which keep the problem full rank) may also be switched off with weight 0
      if (weighted) {w[i] = r.range(1, 3) * (r.coin(1, 4) ? -1 : 1); if (i >= est && r.coin(1, 6)) {w[i] = 0;}}
    }
    for (int i = est + 1; i < n; ++i) {             // residual +t / -t on a duplicated pair: J^T r = 0
      if (rows[i] == rows[i - 1] && i % 2 == 1) {long long t = r.range(-5, 5); y[i] += t; y[i - 1] -= t; w[i] = w[i - 1];}
    }
    if (colscale) {
      const double limit = sizeof(R) == 4 ? 450.0 : 5.0e5;
      auto condOf = [&]() {
          Eigen::MatrixXd M(n, est), Mw(n, est);
          for (int i = 0; i < n; ++i) {for (int k = 0; k < est; ++k) {M(i, k) = std::ldexp((double)rows[i][k], -cs[k]); Mw(i, k) = M(i, k) * (double)w[i];}}
          Eigen::JacobiSVD<Eigen::MatrixXd> s1(M), s2(Mw);
          return std::max(s1.singularValues()(0) / s1.singularValues()(est - 1), s2.singularValues()(0) / s2.singularValues()(est - 1));
        };
      int k1 = (int)r.range(0, est - 1), k2 = (int)r.range(0, est - 1);
      const int cmax = sizeof(R) == 4 ? 9 : 20;
      cs[k1] = r.coin() ? cmax : (int)r.range(0, cmax);
      if (r.coin(1, 3)) {cs[k2] = (int)r.range(0, cs[k1]);}
      while (cs[k1] > 0 && !(condOf() <= limit)) {--cs[k1]; if (cs[k2] > cs[k1]) {cs[k2] = cs[k1];}}
      if (!(condOf() <= limit)) {for (auto & c : cs) {c = 0;}}
    }
    // fill in a shuffled order
    std::vector<int> order(n); for (int i = 0; i < n; ++i) {order[i] = i;}
    for (int i = n - 1; i > 0; --i) {std::swap(order[i], order[(size_t)r.range(0, i)]);}
    for (int i : order) {
      if (silent) {
        for (int k = 0; k < est; ++k) {(*Jref)(i, k) = (R)std::ldexp(rows[i][k] * pscale, -cs[k]);}
        (*Yref)(i) = (R)(y[i] * pscale);
      } else {
        for (int k = 0; k < est; ++k) {ls->getJ()(i, k) = (R)std::ldexp(rows[i][k] * pscale, -cs[k]);}
        ls->getY()(i) = (R)(y[i] * pscale);
      }
      out.put(vh::Ev("fill").i("i", i + 1).vec("j", rows[i]).i("y", y[i]));
      if (weighted || w[i] != 1 || r.coin(1, 10)) {
        ls->getW()(i) = (R)w[i];
        out.put(vh::Ev("setW").i("i", i + 1).i("w", w[i]).i("wread", (long long)ls->getW()(i)));
      }
    }
    int nest = (int)r.range(1, 3);
    for (int q = 0; q < nest; ++q) {
      std::string how = weighted && q == 0 ? "weighted" : (r.coin() ? "svd" : "chol");
      // the SVD path works on J^T J: its rounding error grows with the square of the condition number of the rows as held
      double tolq = tol;
      if (how == "svd") {
        Eigen::MatrixXd M = ls->getJ().topRows(n).template cast<double>();
        Eigen::JacobiSVD<Eigen::MatrixXd> sv(M);
        const double cond = sv.singularValues()(0) / sv.singularValues()(est - 1);
        tolq = std::max(tol, 40.0 * (double)std::numeric_limits<R>::epsilon() * cond * cond);
      }
      typename LeastSquares<R>::Vector xq = how == "weighted" ? ls->weightedEstimate() : how == "svd" ? ls->estimateUsingSVD() :
        ls->estimateUsingCholeskyDecomposition();
      IV xi; bool ok = true;
      for (int k = 0; k < est; ++k) {
        double v = std::ldexp((double)xq(k), -cs[k]), rv = std::nearbyint(v);
        if (!(std::fabs(v - rv) <= tolq * std::max(1.0, std::fabs(rv)))) {ok = false;}
        xi.push_back(std::isfinite(rv) && std::fabs(rv) < 1e9 ? (long long)rv : 0);
      }
      out.put(vh::Ev("estimate").str("how", how).vec("x", xi).b("exact", ok));
      if (est <= 2 && (n <= 60 || ortho) && pscale == 1.0 && (!colscale || ortho)) {
        long long var = r.pick(IV{1, 2, 4});
        // the covariance may be asked for several times (a-priori and a-posteriori variance): every answer is for the last estimate
        auto C = ls->computeEstimateCovariance((R)var);
        for (int again = (int)r.range(0, 2); again > 0; --again) {C = ls->computeEstimateCovariance((R)var);}
        // J^T J of the rows as the solver now holds them (weights applied once after weightedEstimate)
        double jtj[2][2] = {{0, 0}, {0, 0}};
        for (int i = 0; i < n; ++i) {for (int a = 0; a < est; ++a) {for (int b = 0; b < est; ++b) {
              jtj[a][b] += (double)ls->getJ()(i, a) * (double)ls->getJ()(i, b);}}}
        // what the solver inverted (columns possibly scaled by 2^-c): its condition number decides the rounding of the inverse,
        // unless it is exactly diagonal
        const bool diagonal = est == 1 || (jtj[0][1] == 0 && jtj[1][0] == 0);
        const double trS = est == 1 ? jtj[0][0] : jtj[0][0] + jtj[1][1];
        const double detS = est == 1 ? jtj[0][0] : jtj[0][0] * jtj[1][1] - jtj[0][1] * jtj[1][0];
        // back to the unscaled columns the specification knows: J^T J and the covariance scale by 2^(c_a + c_b) / 2^-(c_a + c_b)
        for (int a = 0; a < est; ++a) {for (int b = 0; b < est; ++b) {jtj[a][b] = std::ldexp(jtj[a][b], cs[a] + cs[b]); C(a, b) = (R)std::ldexp((double)C(a, b), -cs[a] - cs[b]);}}
        double det = est == 1 ? jtj[0][0] : jtj[0][0] * jtj[1][1] - jtj[0][1] * jtj[1][0];
        std::vector<IV> cd(est, IV(est, 0)); bool okc = true;
        // the inverse of the normal matrix carries a relative rounding error of its condition number times the machine epsilon
        const double condJtJ = diagonal ? 0.0 : (detS > 0 ? trS * trS / detS : 1e300);
        double cmax = 0; for (int a = 0; a < est; ++a) {for (int b = 0; b < est; ++b) {cmax = std::max(cmax, std::fabs((double)C(a, b) * det));}}
        const double tolc = (sizeof(R) == 4 ? 2e-3 : 1e-7) * std::max(1.0, std::fabs(det)) + 16.0 * (double)std::numeric_limits<R>::epsilon() * condJtJ * cmax;
        for (int a = 0; a < est; ++a) {for (int b = 0; b < est; ++b) {
            double v = (double)C(a, b) * det, rv = std::nearbyint(v);
            if (!(std::fabs(v - rv) <= tolc)) {okc = false;}
            cd[a][b] = std::fabs(rv) < 2e9 ? (long long)rv : 0;}}
        // (too ill conditioned for this precision to pin the integers: not decided)
        if (std::fabs(det) < 2e9 && det > 0 && tolc < 0.25) {
          out.put(vh::Ev("cov").i("var", var).i("det", (long long)std::nearbyint(det)).mat("cdet", cd).b("exact", okc));
        }
      }
    }
  }
}

// replay of model paths (spec -> implementation): script lines  R est | D n | F i j.. y | W i w | E | WE
template<class R>
static void runScript(const std::vector<std::vector<std::string>> & sc, vh::Out & out)
{
  std::unique_ptr<LeastSquares<R>> ls;
  int est = 0;
  for (auto & t : sc) {
    if (t[0] == "R") {est = (int)vh::I(t[1]); ls.reset(new LeastSquares<R>(est)); out.put(vh::Ev("Reset").i("est", est).i("float", sizeof(R) == 4).i("ctor", 0));}
    else if (t[0] == "D") {bool g = ls->setDataSize((size_t)vh::I(t[1])); out.put(vh::Ev("setDataSize").i("n", vh::I(t[1])).b("grew", g));}
    else if (t[0] == "F") {
      int i = (int)vh::I(t[1]); IV row; for (int k = 0; k < est; ++k) {row.push_back(vh::I(t[2 + k])); ls->getJ()(i - 1, k) = (R)row[k];}
      long long y = vh::I(t[2 + est]); ls->getY()(i - 1) = (R)y;
      out.put(vh::Ev("fill").i("i", i).vec("j", row).i("y", y));
    } else if (t[0] == "W") {
      int i = (int)vh::I(t[1]); ls->getW()(i - 1) = (R)vh::I(t[2]);
      out.put(vh::Ev("setW").i("i", i).i("w", vh::I(t[2])).i("wread", (long long)ls->getW()(i - 1)));
    } else if (t[0] == "E" || t[0] == "WE") {
      for (int rep = 0; rep < (t[0] == "E" ? 2 : 1); ++rep) {
        std::string how = t[0] == "WE" ? "weighted" : (rep ? "chol" : "svd");
        typename LeastSquares<R>::Vector x = how == "weighted" ? ls->weightedEstimate() : how == "svd" ? ls->estimateUsingSVD() : ls->estimateUsingCholeskyDecomposition();
        IV xi; bool ok = true;
        for (int k = 0; k < est; ++k) {double v = (double)x(k), rv = std::nearbyint(v); if (!(std::fabs(v - rv) <= (sizeof(R) == 4 ? 1e-3 : 1e-8) * std::max(1.0, std::fabs(rv)))) {ok = false;} xi.push_back(std::isfinite(rv) && std::fabs(rv) < 1e9 ? (long long)rv : 0);}
        out.put(vh::Ev("estimate").str("how", how).vec("x", xi).b("exact", ok));
      }
    }
  }
}

// solver covariance on generic real-valued problems (relative residual in units of 1e-12)
template<class R>
static void covgen(vh::Rng & r, vh::Out & out)
{
  auto u = [&]() {return (double)r.range(-1000000, 1000000) / 1000000.0;};
  int est = (int)r.range(1, 6), n = (int)r.range(est + 2, est + 40);
  LeastSquares<R> ls(est);
  // one solver, two problems in a row: the covariance must describe the LAST one
  Eigen::MatrixXd Jd; Eigen::VectorXd Ad(est);
  for (int round = 0; round < 2; ++round) {
    if (round == 1) {n = std::max(est + 2, n - (int)r.range(0, 10));}
    ls.setDataSize(n);
    Jd = Eigen::MatrixXd(n, est);
    for (int i = 0; i < n; ++i) {for (int k = 0; k < est; ++k) {R v = (R)(u() * 3 + (i % est == k ? 2.0 : 0.0)); ls.getJ()(i, k) = v; Jd(i, k) = (double)v;} ls.getY()(i) = (R)(u() * 5);}
    typename LeastSquares<R>::Matrix Ac = LeastSquares<R>::Matrix::Zero(est, est);
    for (int k = 0; k < est; ++k) {R a = (R)(0.25 + (u() + 1) * 2); Ac(k, k) = a; Ad[k] = (double)a;}
    ls.setPreconditionner(Ac);
    if (r.coin()) {ls.estimateUsingSVD();} else {ls.estimateUsingCholeskyDecomposition();}
  }
  double var = 0.5 + (u() + 1);
  auto C = ls.computeEstimateCovariance((R)var);
  Eigen::MatrixXd ref = (double)(R)var * Ad.asDiagonal() * (Jd.transpose() * Jd).inverse() * Ad.asDiagonal();
  double e = 0; for (int a = 0; a < est; ++a) {for (int b = 0; b < est; ++b) {e = std::max(e, std::fabs((double)C(a, b) - ref(a, b)));}}
  double rel = e / std::max(1e-12, ref.cwiseAbs().maxCoeff());
  double x = rel * 1e12;
  out.put(vh::Ev("covgen").i("float", sizeof(R) == 4).i("est", est).i("res", x < 2e9 ? (long long)std::llround(x) : 2000000000LL));
}

int main(int argc, char ** argv)
{
  if (argc == 4 && std::string(argv[1]) == "script") {
    auto sc = vh::readScript(argv[2]);
    vh::Out out(argv[3]);
    std::vector<std::vector<std::string>> one;
    long long nx = 0;
    auto flush = [&]() {if (!one.empty()) {if (nx++ % 2) {runScript<float>(one, out);} else {runScript<double>(one, out);} one.clear();}};
    for (auto & t : sc) {if (t[0] == "R") {flush();} one.push_back(t);}
    flush();
    std::printf("%lld\n", out.lines);
    return 0;
  }
  if (argc != 5 || std::string(argv[1]) != "random") {std::fprintf(stderr, "usage: drive_lsq random seed nexec out\n"); return 3;}
  vh::Rng r(std::strtoull(argv[2], nullptr, 10));
  int n = std::atoi(argv[3]);
  vh::Out out(argv[4]);
  for (int k = 0; k < n; ++k) {if (k % 2) {exec<float>(r, out); covgen<float>(r, out);} else {exec<double>(r, out); covgen<double>(r, out);}}
  std::printf("%lld\n", out.lines);
  return 0;
}
