// Conformance driver for CheckupEqualTo/GreaterThan/LowerThan<double>, CheckupReliability,
// worse / worseStatus / allOK and DiagnosticReport += (C18; spec/Checkup.tla, spec/StatusLattice.tla).
//   drive_checkup script <script.txt> <out.ndjson>
//   drive_checkup random <seed> <nexec> <out.ndjson>
#include "vh.hpp"
#include <memory>
#include "romea_core_common/diagnostic/CheckupEqualTo.hpp"
#include "romea_core_common/diagnostic/CheckupGreaterThan.hpp"
#include "romea_core_common/diagnostic/CheckupLowerThan.hpp"
#include "romea_core_common/diagnostic/CheckupReliability.hpp"

using namespace romea::core;
// the checked quantity's name changes from one check-up object to the next: a message must name the object's OWN quantity
static const std::vector<std::string> NAMES = {"thing", "speed", "battery_voltage", "x", "thing_2"};
static size_t g_nextName = 0;

static std::string verdictOf(const std::string & msg, bool & named, const std::string & name)
{
  static const std::pair<const char *, const char *> ends[] = {
    {" is too low.", "low"}, {" is too high.", "high"}, {" is OK.", "ok"}, {" is uncertain.", "uncertain"},
    {" is high.", "reliable"}, {" timeout.", "timeout"}};
  named = false;
  if (msg.empty()) {return "none";}
  for (auto & e : ends) {
    std::string end = e.first;
    if (msg.size() >= end.size() && msg.compare(msg.size() - end.size(), end.size(), end) == 0) {
      named = msg == name + end;                          // the message names the checked quantity, and only it
      return e.second;
    }
  }
  if (msg.rfind("no data received", 0) == 0) {named = true; return "nodata";}
  if (msg == "initial message given by the caller") {return "custom";}
  return "other";
}

static void observe(vh::Ev & e, const DiagnosticReport & r, const std::string & name, long long scale = 1, int ulp = 0)
{
  bool named = false;
  const Diagnostic & d = r.diagnostics.front();
  e.i("status", (int)d.status).str("verdict", verdictOf(d.message, named, name)).b("named", named && r.diagnostics.size() == 1 && r.info.size() == 1 && r.info.begin()->first == name);
  const std::string & info = r.info.begin()->second;
  bool has = !info.empty(), ok = true;
  long long v = 0;
  if (has) {
    char * end = nullptr;
    double x = std::strtod(info.c_str(), &end);
    if (*end != 0) {ok = false;}
    if (scale == 1) {v = vh::proj(x, ok, 1e-9);}
    else {
      // integral check-up: the printed value is the integer evaluated, (model value) * scale + (one unit up or down)
      long long xi = std::fabs(x) < 4e18 ? (long long)std::llround(x) : 0;
      if ((double)xi != x || (xi - ulp) % scale != 0) {ok = false;} else {v = (xi - ulp) / scale;}
    }
    if (!ok) {v = 1000000007;}      // not the printed integer: cannot equal any value of the model
  }
  e.b("has", has).i("value", v);
}

struct Obj
{
  std::string kind;
  std::unique_ptr<Checkup<double>> c;
  std::unique_ptr<CheckupReliability> rel;
  // the same check-ups instantiated on an integral type, with thresholds and values of seven and more digits
  std::unique_ptr<Checkup<long long>> ci;
  long long scale = 1; int lastUlp = 0;
  std::string name;
  // ini: -1 default diagnostic, 0..3 an initial diagnostic with that status supplied to the constructor
  Obj(const std::string & k, long long a, long long b, int ini = -1) : kind(k), name(NAMES[g_nextName++ % NAMES.size()])
  {
    Diagnostic d0 = ini < 0 ? Diagnostic() : Diagnostic((DiagnosticStatus)ini, "initial message given by the caller");
    static size_t nth = 0;
    if (k != "rel" && ++nth % 3 == 0) {
      scale = 1000003;
      if (k == "eq") {ci.reset(new CheckupEqualTo<long long>(name, a * scale, b * scale, d0));}
      if (k == "gt") {ci.reset(new CheckupGreaterThan<long long>(name, a * scale, b * scale, d0));}
      if (k == "lt") {ci.reset(new CheckupLowerThan<long long>(name, a * scale, b * scale, d0));}
      return;
    }
    if (k == "eq") {c.reset(new CheckupEqualTo<double>(name, (double)a, (double)b, d0));}
    if (k == "gt") {c.reset(new CheckupGreaterThan<double>(name, (double)a, (double)b, d0));}
    if (k == "lt") {c.reset(new CheckupLowerThan<double>(name, (double)a, (double)b, d0));}
    if (k == "rel") {rel.reset(new CheckupReliability(name, (double)a, (double)b));}
  }
  DiagnosticReport report() const {return rel ? rel->getReport() : ci ? ci->getReport() : c->getReport();}
  std::string first() {vh::Ev e("observe"); observe(e, report(), name, scale, lastUlp); return e.done();}
  std::string evaluate(long long k, int ulp)
  {
    if (ci) {
      // "one ulp above / below k" is the next integer above / below k * scale
      DiagnosticStatus s = ci->evaluate(k * scale + ulp);
      lastUlp = ulp;
      vh::Ev e("evaluate");
      e.i("k", k).i("ulp", ulp).i("ret", (int)s);
      observe(e, report(), name, scale, ulp);
      return e.done();
    }
    double v = (double)k;
    if (ulp > 0) {v = std::nextafter(v, INFINITY);}
    if (ulp < 0) {v = std::nextafter(v, -INFINITY);}
    DiagnosticStatus s = rel ? rel->evaluate(v) : c->evaluate(v);
    vh::Ev e("evaluate");
    e.i("k", k).i("ulp", ulp).i("ret", (int)s);
    observe(e, report(), name);
    return e.done();
  }
  std::string timeout()
  {
    if (ci) {ci->timeout();} else {c->timeout();}
    vh::Ev e("timeout");
    observe(e, report(), name, scale, lastUlp);
    return e.done();
  }
};

static std::string resetLine(const std::string & kind, long long a, long long b, int ini = -1)
{
  return vh::Ev("Reset").str("kind", kind).i("a", a).i("b", b).str("init", ini < 0 ? "stale" : "custom" + std::to_string(ini)).done();
}

static std::vector<std::pair<long long, int>> valuesNear(const std::string & kind, long long a, long long b, int near)
{
  std::vector<long long> th = kind == "rel" ? std::vector<long long>{a, b} : std::vector<long long>{a - b, a + b, a};
  std::vector<long long> ks;
  for (long long t : th) {for (long long k = t - near; k <= t + near; ++k) {ks.push_back(k);}}
  std::sort(ks.begin(), ks.end());
  ks.erase(std::unique(ks.begin(), ks.end()), ks.end());
  std::vector<std::pair<long long, int>> out;
  for (long long k : ks) {for (int d = -1; d <= 1; ++d) {out.push_back({k, d});}}
  return out;
}

static void runScript(const char * path, vh::Out & out)
{
  auto sc = vh::readScript(path);
  size_t at = 0;
  while (at < sc.size()) {
    const auto h = sc[at];
    if (h[0] != "R") {std::fprintf(stderr, "bad script line %zu\n", at); std::exit(3);}
    std::string kind = h[1];
    long long a = vh::I(h[2]), b = vh::I(h[3]);
    int near = (int)vh::I(h[4]);
    int ini = h.size() > 5 ? (int)vh::I(h[5]) : -1;
    size_t end = at + 1;
    bool expand = false;
    while (end < sc.size() && sc[end][0] != "R") {if (sc[end][0] == "X") {expand = true;} ++end;}
    // check-ups hold a mutex and cannot be copied: each expansion re-executes the path on a fresh object
    std::vector<std::pair<long long, int>> acts;
    if (expand) {acts = valuesNear(kind, a, b, near); acts.push_back({0, 9});} else {acts.push_back({0, 8});}
    for (auto & act : acts) {
      if (act.second == 9 && kind == "rel") {continue;}
      Obj o(kind, a, b, ini);
      out.puts(resetLine(kind, a, b, ini));
      out.puts(o.first());
      for (size_t k = at + 1; k < end; ++k) {
        const auto & t = sc[k];
        if (t[0] == "E") {out.puts(o.evaluate(vh::I(t[1]), (int)vh::I(t[2])));}
        if (t[0] == "T") {out.puts(o.timeout());}
      }
      if (act.second == 9) {out.puts(o.timeout());} else if (act.second != 8) {out.puts(o.evaluate(act.first, act.second));}
    }
    at = end;
  }
}

static void randomCheckup(vh::Rng & r, vh::Out & out)
{
  static const std::vector<std::string> kinds = {"eq", "gt", "lt", "rel"};
  std::string kind = r.pick(kinds);
  long long a = r.range(-50000, 50000), b = r.coin(1, 5) ? 0 : r.range(0, 40000);
  if (kind == "rel") {b = a + (r.coin(1, 5) ? 0 : r.range(-20000, 40000));}           // thresholds in either order
  int ini = kind != "rel" && r.coin(1, 3) ? (int)r.range(0, 3) : -1;
  Obj o(kind, a, b, ini);
  out.puts(resetLine(kind, a, b, ini));
  out.puts(o.first());
  auto near = valuesNear(kind, a, b, 2);
  int len = (int)r.range(1, 40);
  for (int s = 0; s < len; ++s) {
    if (kind != "rel" && r.coin(1, 6)) {out.puts(o.timeout()); continue;}
    if (r.coin(2, 3)) {auto v = r.pick(near); out.puts(o.evaluate(v.first, v.second));} else {
      out.puts(o.evaluate(r.range(-99999, 99999), (int)r.range(-1, 1)));
    }
  }
}

static std::string jsonPairs(const std::vector<std::pair<long long, long long>> & v)
{
  std::string s = "[";
  for (size_t k = 0; k < v.size(); ++k) {
    if (k) {s += ",";}
    s += "[" + std::to_string(v[k].first) + "," + std::to_string(v[k].second) + "]";
  }
  return s + "]";
}
static DiagnosticReport mkReport(vh::Rng & r, int maxd, std::vector<std::pair<long long, long long>> & d,
  std::vector<std::pair<long long, long long>> & info)
{
  DiagnosticReport rep;
  int nd = (int)r.range(0, maxd);
  for (int k = 0; k < nd; ++k) {
    long long st = r.range(0, 3), id = r.range(1, 9);
    rep.diagnostics.push_back(Diagnostic((DiagnosticStatus)st, "m" + std::to_string(id)));
    d.push_back({st, id});
  }
  int ni = (int)r.range(0, 6);
  for (int k = 0; k < ni; ++k) {
    long long key = r.range(1, 8), val = r.range(1, 99);
    // keys "k1".."k8" sort like their numbers
    if (rep.info.count("k" + std::to_string(key))) {continue;}
    if (val % 2) {setReportInfo(rep, "k" + std::to_string(key), val);} else {setReportInfo(rep, "k" + std::to_string(key), std::optional<long long>(val));}
  }
  for (auto & kv : rep.info) {info.push_back({std::stoll(kv.first.substr(1)), std::stoll(kv.second)});}
  return rep;
}
static void readBack(const DiagnosticReport & rep, std::vector<std::pair<long long, long long>> & d,
  std::vector<std::pair<long long, long long>> & info)
{
  for (auto & x : rep.diagnostics) {d.push_back({(long long)x.status, x.message.size() > 1 ? std::stoll(x.message.substr(1)) : -1});}
  for (auto & kv : rep.info) {info.push_back({std::stoll(kv.first.substr(1)), kv.second.empty() ? -1 : std::stoll(kv.second)});}
}

static void lattice(vh::Rng & r, vh::Out & out, int nrandom)
{
  out.puts(resetLine("eq", 0, 0));
  for (int a = 0; a < 4; ++a) {
    for (int b = 0; b < 4; ++b) {
      out.put(vh::Ev("worse").i("a", a).i("b", b).i("r", (int)worse((DiagnosticStatus)a, (DiagnosticStatus)b)));
      for (int c = 0; c < 4; ++c) {      // triples through both association orders
        int l1 = (int)worse(worse((DiagnosticStatus)a, (DiagnosticStatus)b), (DiagnosticStatus)c);
        int l2 = (int)worse((DiagnosticStatus)a, worse((DiagnosticStatus)b, (DiagnosticStatus)c));
        std::list<Diagnostic> l = {Diagnostic((DiagnosticStatus)a, ""), Diagnostic((DiagnosticStatus)b, ""), Diagnostic((DiagnosticStatus)c, "")};
        out.put(vh::Ev("worst").vec("list", std::vector<int>{a, b, c}).i("r", l1).b("allok", allOK(l)));
        out.put(vh::Ev("worst").vec("list", std::vector<int>{a, b, c}).i("r", l2).b("allok", allOK(l)));
        out.put(vh::Ev("worst").vec("list", std::vector<int>{a, b, c}).i("r", (int)worseStatus(l)).b("allok", allOK(l)));
      }
    }
  }
  for (int n = 0; n < nrandom; ++n) {
    int len = (int)r.range(1, 20);
    std::vector<int> st;
    std::list<Diagnostic> l;
    int bias = (int)r.range(0, 3);
    for (int k = 0; k < len; ++k) {
      int s = r.coin(2, 3) ? 0 : (int)r.range(0, bias);
      st.push_back(s);
      l.push_back(Diagnostic((DiagnosticStatus)s, "x"));
    }
    out.put(vh::Ev("worst").vec("list", st).i("r", (int)worseStatus(l)).b("allok", allOK(l)));
    std::vector<std::pair<long long, long long>> d1, i1, d2, i2, rd, ri;
    DiagnosticReport r1 = mkReport(r, 10, d1, i1), r2 = mkReport(r, 10, d2, i2);
    const int alias = (int)r.range(0, 5);
    if (alias == 0) {r1 += r1; d2 = d1; i2 = i1;}                                  // a report appended to itself
    else if (alias == 1) {DiagnosticReport & same = r1; (r1 += r2) += same;         // chained, the second operand being the (grown) report itself
      std::vector<std::pair<long long, long long>> dm = d1, im = i1;
      dm.insert(dm.end(), d2.begin(), d2.end());
      for (auto & kv : i2) {bool has = false; for (auto & o : im) {has = has || o.first == kv.first;} if (!has) {im.push_back(kv);}}
      d1 = dm; i1 = im; d2 = dm; i2 = im;}
    else {r1 += r2;}
    readBack(r1, rd, ri);
    out.put(vh::Ev("append").raw("d1", jsonPairs(d1)).raw("i1", jsonPairs(i1)).raw("d2", jsonPairs(d2)).raw("i2", jsonPairs(i2))
      .raw("rd", jsonPairs(rd)).raw("ri", jsonPairs(ri)));
  }
}

int main(int argc, char ** argv)
{
  std::string mode = argc > 1 ? argv[1] : "";
  if (mode == "script" && argc == 4) {
    vh::Out out(argv[3]);
    runScript(argv[2], out);
    std::printf("%lld\n", out.lines);
    return 0;
  }
  if (mode == "random" && argc == 5) {
    vh::Rng r(std::strtoull(argv[2], nullptr, 10));
    int nexec = std::atoi(argv[3]);
    vh::Out out(argv[4]);
    for (int k = 0; k < nexec; ++k) {randomCheckup(r, out);}
    lattice(r, out, nexec);
    std::printf("%lld\n", out.lines);
    return 0;
  }
  std::fprintf(stderr, "usage: see header comment\n");
  return 3;
}
