// Conformance driver for OnlineAverage, OnlineVariance (spec/SlidingStats.tla) and
// RingOfEigenVector (spec/Ring.tla) - property C16.
//   drive_stats script <script.txt> <stats.ndjson> <ring.ndjson>
//   drive_stats random <seed> <nexec> <stats.ndjson> <ring.ndjson>
// Samples are integers q in quarter precision units: value = (q / 4) * precision.
#include "vh.hpp"
#include <memory>
#include <Eigen/Core>
#include "romea_core_common/monitoring/OnlineAverage.hpp"
#include "romea_core_common/monitoring/OnlineVariance.hpp"
#include "romea_core_common/containers/Eigen/RingOfEigenVector.hpp"

using namespace romea::core;

static const double PREC[] = {1, 0.5, 0.25, 0.125, 0.1, 1e-2, 1e-3, 1e-4, 1e-5, 1e-6};
static const int NPREC = 10;
static bool dyadic(int p) {return p < 4;}

// project x onto an integer; exact when within 1e-9 * scale of it
static long long projScaled(double x, double scale, bool & exact)
{
  exact = true;
  if (!std::isfinite(x) || std::fabs(x) > 2.0e9) {exact = false; return 0;}
  double r = std::nearbyint(x);
  if (std::fabs(x - r) > 1e-9 * std::max(1.0, scale)) {exact = false;}
  return (long long)r;
}

// The integer multiplier a precision stands for is 1/p rounded - or truncated (1/1e-5 = 99999.99..):
// both are "the configured precision" up to rounding of the reciprocal.  Which one the library uses
// is calibrated once per precision on a one-sample window: average * M must be an integer.
static double calibrate(int p)
{
  double cand[2] = {std::nearbyint(1 / PREC[p]), std::floor(1 / PREC[p])};
  if (cand[0] == cand[1]) {return cand[0];}
  for (double M : cand) {
    bool all = true;
    for (double probe : {0.7, 0.31, 0.93, 0.57}) {
      OnlineAverage a(PREC[p], 1);
      a.update(probe);
      double x = a.getAverage() * M;
      if (std::fabs(x - std::nearbyint(x)) > 1e-6) {all = false;}
    }
    if (all) {return M;}
  }
  return cand[0];
}
static double multiplier(int p)
{
  static double M[NPREC] = {0};
  if (M[p] == 0) {M[p] = calibrate(p);}
  return M[p];
}

struct Stats
{
  bool var;
  int W, p;
  int shift = 0;          // magnitude class: truncated samples are multiples of 2^shift precision units
  std::unique_ptr<OnlineAverage> avg;
  std::unique_ptr<OnlineVariance> vr;
  long long n = 0;        // the harness's own count of samples since the last reset (input knowledge)
  double maxabs = 1;
  // how: 0 constructed with W; 1 constructed without a window then configured; 2 / 3 constructed with (or first configured to)
  // another window size w0, then reconfigured to W before any sample
  Stats(bool v, int w, int pi, int how, int w0 = 0) : var(v), W(w), p(pi)
  {
    if (var) {
      vr.reset(how == 0 ? new OnlineVariance(PREC[p], W) : how == 2 ? new OnlineVariance(PREC[p], w0) : new OnlineVariance(PREC[p]));
      if (how == 3) {vr->setWindowSize(w0);}
      if (how != 0) {vr->setWindowSize(W);}
    } else {
      avg.reset(how == 0 ? new OnlineAverage(PREC[p], W) : how == 2 ? new OnlineAverage(PREC[p], w0) : new OnlineAverage(PREC[p]));
      if (how == 3) {avg->setWindowSize(w0);}
      if (how != 0) {avg->setWindowSize(W);}
    }
  }
  // setWindowSize on an empty estimator (fresh or just reset)
  std::string resize(int w)
  {
    if (var) {vr->setWindowSize(w);} else {avg->setWindowSize(w);}
    W = w;
    return vh::Ev("resize").i("W", w).b("avail", a().isAvailable()).done();
  }
  Stats(const Stats & o) : var(o.var), W(o.W), p(o.p), shift(o.shift), n(o.n), maxabs(o.maxabs)
  {
    if (o.avg) {avg.reset(new OnlineAverage(*o.avg));}
    if (o.vr) {vr.reset(new OnlineVariance(*o.vr));}
  }
  OnlineAverage & a() {return var ? *vr : *avg;}
  std::string update(long long q)
  {
    // truncated sample = Trunc0(q) * 2^shift precision units; the fractional quarter keeps the product
    // value * multiplier away from an integer for decimal precisions
    const double U = std::ldexp(1.0, shift);
    long long aq = q < 0 ? -q : q;
    double mag = (double)(aq / 4) * U + (aq % 4) / 4.0;
    double value = (q < 0 ? -mag : mag) * PREC[p];
    if (var) {vr->update(value);} else {avg->update(value);}
    ++n;
    maxabs = std::max(maxabs, std::fabs(q / 4.0) + 1);
    long long k = std::min<long long>(n, W);
    const double M = multiplier(p);
    vh::Ev e("update");
    e.i("q", q).b("avail", a().isAvailable());
    bool ex = false;
    long long s = projScaled(a().getAverage() * M * k / U, k * maxabs, ex);
    e.i("sum", s).b("sumExact", ex);
    bool hasVar = var && n >= W;
    long long v = 0; bool vex = false;
    if (hasVar) {
      v = projScaled(vr->getVariance() * M * M * W * (W - 1.0) / (U * U), double(W) * W * maxabs * maxabs, vex);
    }
    e.b("hasVar", hasVar).i("var", v).b("varExact", vex);
    return e.done();
  }
  std::string reset()
  {
    a().reset();
    n = 0;
    return vh::Ev("reset").b("avail", a().isAvailable()).done();
  }
};

struct RingObj
{
  using V = Eigen::Vector2d;
  RingOfEigenVector<V> r;
  int C;
  explicit RingObj(int c) : r(c), C(c) {}
  void observe(vh::Ev & e)
  {
    std::vector<long long> items;
    bool coherent = true;
    for (size_t k = 0; k < r.size(); ++k) {
      const V & v = r[k];
      items.push_back((long long)v.x());
      if (v.y() != 2 * v.x() + 1 || v.x() != std::nearbyint(v.x())) {coherent = false;}
    }
    e.i("size", (long long)r.size()).vec("items", items).b("coherent", coherent);
  }
  std::string append(long long v)
  {
    r.append(V(double(v), 2.0 * v + 1));
    vh::Ev e("append"); e.i("v", v); observe(e); return e.done();
  }
  // an element of the ring itself handed back by reference (argument aliasing): the value appended is the one the element had
  std::string appendOwn(size_t k)
  {
    const long long v = (long long)r[k].x();
    r.append(r[k]);
    vh::Ev e("append"); e.i("v", v); observe(e); return e.done();
  }
  std::string clear()
  {
    r.clear();
    vh::Ev e("clear"); observe(e); return e.done();
  }
};

static void runScript(const char * path, vh::Out & so, vh::Out & ro)
{
  auto sc = vh::readScript(path);
  size_t at = 0;
  while (at < sc.size()) {
    const auto & h = sc[at];
    if (h[0] != "R") {std::fprintf(stderr, "bad script line %zu\n", at); std::exit(3);}
    if (h[1] == "ring") {
      RingObj o((int)vh::I(h[2]));
      ro.put(vh::Ev("Reset").i("C", o.C));
      long long nxt = 1;
      for (++at; at < sc.size() && sc[at][0] != "R"; ++at) {
        const auto & t = sc[at];
        if (t[0] == "A") {nxt = vh::I(t[1]); ro.puts(o.append(nxt)); ++nxt;} else if (t[0] == "C") {
          ro.puts(o.clear());
        } else if (t[0] == "X") {
          ro.put(vh::Ev("save"));
          {RingObj c = o; ro.puts(c.append(nxt)); ro.put(vh::Ev("restore"));}
          {RingObj c = o; ro.puts(c.clear()); ro.put(vh::Ev("restore"));}
          for (size_t k : {(size_t)0, o.r.size() > 0 ? o.r.size() - 1 : (size_t)0, o.r.size() / 2}) {
            if (k < o.r.size()) {RingObj c = o; ro.puts(c.appendOwn(k)); ro.put(vh::Ev("restore"));}
          }
        }
      }
    } else {
      bool var = h[1] == "var";
      Stats o(var, (int)vh::I(h[2]), (int)vh::I(h[3]), h.size() > 4 && h[4] == "setter" ? 1 : 0);
      so.put(vh::Ev("Reset").str("kind", h[1]).i("W", o.W).i("p", o.p));
      for (++at; at < sc.size() && sc[at][0] != "R"; ++at) {
        const auto & t = sc[at];
        if (t[0] == "U") {so.puts(o.update(vh::I(t[1])));} else if (t[0] == "Z") {so.puts(o.reset());} else if (t[0] == "S") {
          so.puts(o.resize((int)vh::I(t[1])));
        } else if (t[0] == "X") {
          so.put(vh::Ev("save"));
          for (size_t k = 1; k < t.size(); ++k) {
            Stats c = o; so.puts(c.update(vh::I(t[k]))); so.put(vh::Ev("restore"));
          }
          {Stats c = o; so.puts(c.reset()); so.put(vh::Ev("restore"));}
          if (o.n == 0) {
            for (int w : {o.W + 1, o.W > 2 ? o.W - 1 : o.W + 3}) {
              Stats c = o; so.puts(c.resize(w)); so.puts(c.update(5)); so.puts(c.update(-9)); so.puts(c.update(7)); so.put(vh::Ev("restore"));
            }
          }
        }
      }
    }
  }
}

static void randomStats(vh::Rng & r, vh::Out & so)
{
  bool var = r.coin();
  int W = (int)(r.coin(1, 3) ? r.range(var ? 2 : 1, 6) : r.range(var ? 2 : 1, 64));
  int p = (int)r.range(0, NPREC - 1);
  Stats o(var, W, p, (int)r.pick(std::vector<int>{0, 0, 0, 1, 1, 2, 3}), (int)r.range(var ? 2 : 1, 64));
  o.shift = (int)r.pick(std::vector<int>{0, 0, 10, 20});       // |value|/precision up to 200, 2e5, 1e8
  so.put(vh::Ev("Reset").str("kind", var ? "var" : "avg").i("W", W).i("p", p).i("shift", o.shift));
  int len = (int)r.range(0, 10 * W);
  int mag = (int)r.pick(std::vector<int>{3, 20, 200});
  if (o.shift == 20) {mag = (int)r.pick(std::vector<int>{3, 20, 95});}
  int resetEvery = (int)r.range(1, 3 * W + 3);
  for (int s = 0; s < len; ++s) {
    if (r.range(0, resetEvery) == 0) {
      so.puts(o.reset());
      // the window may be reconfigured while the estimator is empty
      if (r.coin(1, 3)) {W = (int)(r.coin() ? r.range(var ? 2 : 1, 6) : r.range(var ? 2 : 1, 64)); so.puts(o.resize(W)); resetEvery = (int)r.range(1, 3 * W + 3);}
      continue;
    }
    long long q = r.range(-4LL * mag, 4LL * mag);
    if (!dyadic(p) && q % 2 == 0) {q += 1;}        // never an exact multiple of a decimal precision
    if (!dyadic(p) && q % 4 == 0) {q += 1;}
    so.puts(o.update(q));
  }
}

static void randomRing(vh::Rng & r, vh::Out & ro)
{
  int C = (int)r.range(1, 16);
  RingObj o(C);
  ro.put(vh::Ev("Reset").i("C", C));
  int len = (int)r.range(0, 6 * C);
  long long nxt = 1;
  int clearEvery = (int)r.range(2, 4 * C + 2);
  for (int s = 0; s < len; ++s) {
    if (r.range(0, clearEvery) == 0) {ro.puts(o.clear());}
    else if (o.r.size() > 0 && r.coin(1, 6)) {ro.puts(o.appendOwn((size_t)r.range(0, (long long)o.r.size() - 1)));}
    else {ro.puts(o.append(nxt++));}
  }
}

int main(int argc, char ** argv)
{
  std::string mode = argc > 1 ? argv[1] : "";
  if (mode == "script" && argc == 5) {
    vh::Out so(argv[3]), ro(argv[4]);
    runScript(argv[2], so, ro);
    std::printf("%lld %lld\n", so.lines, ro.lines);
    return 0;
  }
  if (mode == "random" && argc == 6) {
    vh::Rng r(std::strtoull(argv[2], nullptr, 10));
    int nexec = std::atoi(argv[3]);
    vh::Out so(argv[4]), ro(argv[5]);
    for (int k = 0; k < nexec; ++k) {randomStats(r, so); randomRing(r, ro);}
    std::printf("%lld %lld\n", so.lines, ro.lines);
    return 0;
  }
  std::fprintf(stderr, "usage: see header comment\n");
  return 3;
}
