// Conformance driver for NormalAndCurvatureEstimation (C09; spec/Normals.tla).  Exact lattices.
//   drive_normals random <seed> <n> <out.ndjson>
#include "vh.hpp"
#include <Eigen/Eigenvalues>
#include "romea_core_common/pointset/algorithms/NormalAndCurvatureEstimation.hpp"

using namespace romea::core;
using IV = std::vector<long long>;
using IM = std::vector<IV>;

// real coordinate = g_unit * integer (a power of two: exact): the same cloud expressed in large or tiny units
static double g_unit = 1;
template<class PT, size_t DIM> static PT mk(const IV & p)
{
  PT x; for (size_t a = 0; a < DIM; ++a) {x[a] = (typename PT::Scalar)(g_unit * (double)p[a]);}
  if ((size_t)PT::RowsAtCompileTime > DIM) {x[DIM] = 1;}
  return x;
}
static long long dot(const IV & a, const IV & b) {long long s = 0; for (size_t i = 0; i < a.size(); ++i) {s += a[i] * b[i];} return s;}

// is the neighbourhood of point i (points strictly closer than the k-th nearest distance) of full surface rank?
template<size_t DIM>
static bool wellConditioned(const std::vector<IV> & pts, size_t i, int k)
{
  std::vector<long long> d2;
  for (auto & q : pts) {long long s = 0; for (size_t a = 0; a < DIM; ++a) {s += (q[a] - pts[i][a]) * (q[a] - pts[i][a]);} d2.push_back(s);}
  std::vector<long long> sorted = d2; std::sort(sorted.begin(), sorted.end());
  long long dk = sorted[k - 1];
  std::vector<IV> sure;
  for (size_t j = 0; j < pts.size(); ++j) {if (d2[j] < dk) {sure.push_back(pts[j]);}}
  if (DIM == 2) {for (auto & q : sure) {if (q != sure[0]) {return true;}} return false;}            // at least two distinct points on the line
  for (size_t a = 1; a < sure.size(); ++a) {for (size_t b = a + 1; b < sure.size(); ++b) {
      IV u, v; for (size_t c = 0; c < 3; ++c) {u.push_back(sure[a][c] - sure[0][c]); v.push_back(sure[b][c] - sure[0][c]);}
      if (u[1] * v[2] - u[2] * v[1] != 0 || u[2] * v[0] - u[0] * v[2] != 0 || u[0] * v[1] - u[1] * v[0] != 0) {return true;}}}
  return false;
}

template<class PT, size_t DIM>
static void run(vh::Rng & r, int type, vh::Out & out)
{
  using S = typename PT::Scalar;
  const double tol = sizeof(S) == 4 ? 2e-3 : 1e-7;
  // surface: nrm . p = c with nrm / den a unit vector
  static const std::vector<IV> N2 = {{1, 0, 1}, {0, 1, 1}, {3, 4, 5}, {-4, 3, 5}, {5, 12, 13}, {24, -7, 25}};
  static const std::vector<IV> N3 = {{1, 0, 0, 1}, {0, 1, 0, 1}, {0, 0, 1, 1}, {3, 0, 4, 5}, {0, -4, 3, 5}, {4, 3, 0, 5}, {2, 3, 6, 7}, {1, 4, 8, 9}, {-2, 6, 3, 7}};
  IV nd = DIM == 2 ? r.pick(N2) : r.pick(N3);
  long long den = nd[DIM]; IV nrm(nd.begin(), nd.begin() + DIM);
  // integer points on the surface: p = p0 + combination of integer direction vectors orthogonal to nrm
  std::vector<IV> dirs;
  if (DIM == 2) {dirs.push_back(IV{-nrm[1], nrm[0]});}
  else {
    IV a{-nrm[1], nrm[0], 0}, b{0, -nrm[2], nrm[1]}, c{-nrm[2], 0, nrm[0]};
    for (auto & d : {a, b, c}) {if (d[0] || d[1] || d[2]) {dirs.push_back(d);}}
  }
  long long off = (r.coin() ? 1 : -1) * (r.coin(1, 3) ? r.range(60, 60 + 1940 / den) : r.range(1, 30));      // near and far from the sensor origin
  IV p0; for (size_t a = 0; a < DIM; ++a) {p0.push_back(nrm[a] * off);}          // nrm . p0 = off * den^2
  long long c = off * den * den;
  int n = (int)r.range(12, r.coin(1, 5) ? 400 : 60);
  int k = (int)r.range(3, std::min(30, n - 1));
  // the unit the cloud is expressed in (normals do not depend on it)
  g_unit = r.coin(1, 3) ? (sizeof(S) == 4 ? r.pick(std::vector<double>{std::ldexp(1.0, -8), std::ldexp(1.0, -16), 16.0}) :
    r.pick(std::vector<double>{std::ldexp(1.0, -8), std::ldexp(1.0, -16), std::ldexp(1.0, -32), 1024.0})) : 1.0;
  if (sizeof(S) == 4 && std::llabs(off) > 30) {g_unit = 1.0;}
  std::vector<IV> pts;
  // a thin two-row zig-zag strip in the plane (double only: in float the rounding of the long axis swamps the strip's width)
  const bool strip = DIM == 3 && sizeof(S) == 8 && dirs.size() >= 2 && r.coin(1, 4);
  const long long L = r.pick(IV{30, 100});
  for (int i = 0; i < n; ++i) {
    IV p = p0;
    if (strip) {for (size_t a = 0; a < DIM; ++a) {p[a] += (i - n / 2) * L * dirs[0][a] + (i % 2) * dirs[1][a];}}
    else {for (auto & d : dirs) {long long m = r.range(-12, 12); for (size_t a = 0; a < DIM; ++a) {p[a] += m * d[a];}}}
    pts.push_back(p);
  }
  if (strip && sizeof(S) == 4) {g_unit = 1.0;}
  PointSet<PT> ps; for (auto & p : pts) {ps.push_back(mk<PT, DIM>(p));}
  auto estimate = [&](const PointSet<PT> & cloud, std::vector<IV> & outs, std::vector<int> & exact, std::vector<int> & curv0) {
      NormalSet<PT> normals(cloud.size());
      std::vector<S> curv(cloud.size());
      NormalAndCurvatureEstimation<PT> est((size_t)k);
      if (r.coin()) {est.compute(cloud, normals, curv);} else {KdTree<PT> tree(cloud); est.compute(cloud, tree, normals, curv);}
      for (size_t i = 0; i < cloud.size(); ++i) {
        IV o; bool ok = true;
        for (size_t a = 0; a < DIM; ++a) {double x = (double)normals[i][a] * den, rx = std::nearbyint(x); if (!(std::fabs(x - rx) <= tol * den)) {ok = false;} o.push_back((long long)rx);}
        outs.push_back(o); exact.push_back(ok); curv0.push_back(std::fabs((double)curv[i]) <= (sizeof(S) == 4 ? 1e-4 : 1e-9));
      }
    };
  std::vector<IV> outs; std::vector<int> exact, curv0, gap;
  estimate(ps, outs, exact, curv0);
  for (size_t i = 0; i < pts.size(); ++i) {gap.push_back(wellConditioned<DIM>(pts, i, k));}
  auto bools = [](const std::vector<int> & v) {std::string s = "["; for (size_t i = 0; i < v.size(); ++i) {s += (i ? "," : ""); s += v[i] ? "true" : "false";} return s + "]";};
  out.put(vh::Ev("planar").i("dim", DIM).i("type", type).i("k", k).vec("nrm", nrm).i("den", den).i("c", c).mat("pts", pts).mat("outs", outs)
    .raw("gap", bools(gap)).raw("exact", bools(exact)).raw("curv0", bools(curv0)));
  // equivariance under a signed permutation of the axes (a rotation about the origin)
  IM Q(DIM, IV(DIM, 0));
  if (DIM == 2) {int q = (int)r.range(1, 3); int cq[] = {1, 0, -1, 0}, sq[] = {0, 1, 0, -1}; Q = IM{{cq[q], -sq[q]}, {sq[q], cq[q]}};}
  else {int w = (int)r.range(0, 2); if (w == 0) {Q = IM{{0, -1, 0}, {1, 0, 0}, {0, 0, 1}};} else if (w == 1) {Q = IM{{0, 0, 1}, {1, 0, 0}, {0, 1, 0}};} else {Q = IM{{-1, 0, 0}, {0, 0, 1}, {0, 1, 0}};}}
  std::vector<IV> pts2; for (auto & p : pts) {IV q; for (size_t a = 0; a < DIM; ++a) {q.push_back(dot(Q[a], p));} pts2.push_back(q);}
  PointSet<PT> ps2; for (auto & p : pts2) {ps2.push_back(mk<PT, DIM>(p));}
  std::vector<IV> outs2; std::vector<int> exact2, curv02, gap2;
  estimate(ps2, outs2, exact2, curv02);
  for (size_t i = 0; i < pts2.size(); ++i) {gap2.push_back(wellConditioned<DIM>(pts2, i, k) && exact2[i] && exact[i]);}
  out.put(vh::Ev("equiv").mat("Q", Q).mat("outs", outs).mat("outs2", outs2).raw("gap", bools(gap)).raw("gap2", bools(gap2)));
  g_unit = 1.0;
  // histories: ONE estimator (k = 8) and ONE point-set buffer per point type, refilled in place frame after frame with
  // two-patch clouds (two surfaces far apart, so that every true neighbourhood lies within one patch)
  {
    static NormalAndCurvatureEstimation<PT> est8(8);
    static PointSet<PT> buf;
    const int m = 160;
    if (buf.size() != (size_t)m) {buf.resize(m);}
    const auto & NS = DIM == 2 ? N2 : N3;
    for (int frame = 0; frame < 2; ++frame) {
      IV s1 = r.pick(NS), s2 = r.pick(NS);
      IV n1(s1.begin(), s1.begin() + DIM), n2(s2.begin(), s2.begin() + DIM);
      long long d1 = s1[DIM], d2 = s2[DIM];
      // bring both normals to the common denominator d1 * d2
      IV m1, m2; for (size_t a = 0; a < DIM; ++a) {m1.push_back(n1[a] * d2); m2.push_back(n2[a] * d1);}
      long long dd = d1 * d2;
      long long o1 = r.range(2, 9), o2 = -r.range(400, 900) / (long long)std::max(d1, d2);
      auto surfacePts = [&](const IV & nn, long long dn, long long off0, int count, std::vector<IV> & outp) {
          std::vector<IV> dv;
          if (DIM == 2) {dv.push_back(IV{-nn[1], nn[0]});} else {
            IV a{-nn[1], nn[0], 0}, b{0, -nn[2], nn[1]}, c{-nn[2], 0, nn[0]};
            for (auto & d : {a, b, c}) {if (d[0] || d[1] || d[2]) {dv.push_back(d);}}
          }
          for (int i = 0; i < count; ++i) {
            IV p; for (size_t a = 0; a < DIM; ++a) {p.push_back(nn[a] * off0);}
            for (auto & d : dv) {long long q = r.range(-6, 6); for (size_t a = 0; a < DIM; ++a) {p[a] += q * d[a];}}
            (void)dn;
            outp.push_back(p);
          }
        };
      std::vector<IV> fp; surfacePts(n1, d1, o1, m / 2, fp); surfacePts(n2, d2, o2, m / 2, fp);
      for (int i = 0; i < m; ++i) {buf[i] = mk<PT, DIM>(fp[i]);}                       // refilled in place, same size
      NormalSet<PT> normals(m); std::vector<S> curv(m);
      est8.compute(buf, normals, curv);                                                   // the overload that builds its own kd-tree
      std::vector<IV> outs2; std::vector<int> ex2, cz2, gp2; IV patch;
      for (int i = 0; i < m; ++i) {
        IV o; bool ok = true;
        for (size_t a = 0; a < DIM; ++a) {double x = (double)normals[i][a] * dd, rx = std::nearbyint(x); if (!(std::fabs(x - rx) <= tol * dd)) {ok = false;} o.push_back((long long)rx);}
        outs2.push_back(o); ex2.push_back(ok); cz2.push_back(std::fabs((double)curv[i]) <= (sizeof(S) == 4 ? 1e-4 : 1e-9));
        patch.push_back(i < m / 2 ? 1 : 2);
        // well conditioned: the points strictly closer than the 8th neighbour span the surface AND all points up to that distance are of the same patch
        bool g = wellConditioned<DIM>(fp, (size_t)i, 8);
        if (g) {
          std::vector<long long> dist; for (auto & q : fp) {long long t2 = 0; for (size_t a = 0; a < DIM; ++a) {t2 += (q[a] - fp[i][a]) * (q[a] - fp[i][a]);} dist.push_back(t2);}
          std::vector<long long> sd = dist; std::sort(sd.begin(), sd.end());
          for (int j = 0; j < m; ++j) {if (dist[j] <= sd[7] && (j < m / 2) != (i < m / 2)) {g = false;}}
        }
        gp2.push_back(g);
      }
      long long c1 = 0, c2 = 0; for (size_t a = 0; a < DIM; ++a) {c1 += m1[a] * fp[0][a]; c2 += m2[a] * fp[m / 2][a];}
      out.put(vh::Ev("patches").i("dim", DIM).i("type", type).i("frame", frame).vec("nrm1", m1).vec("nrm2", m2).i("den", dd).i("c1", c1).i("c2", c2)
        .mat("pts", fp).vec("patch", patch).mat("outs", outs2).raw("gap", bools(gp2)).raw("exact", bools(ex2)).raw("curv0", bools(cz2)));
    }
  }
  // a non-planar cloud: range invariants only
  // (distinct real-valued points: a neighbourhood of coincident points has no direction of least variance at all - the property's
  //  quantifier asks for a distinct smallest eigenvalue - and its curvature would be 0/0)
  PointSet<PT> cloud;
  for (int i = 0; i < n; ++i) {
    PT q = mk<PT, DIM>(IV(DIM, 0));
    for (size_t a = 0; a < DIM; ++a) {q[a] = (S)((double)r.range(-50000, 50000) / 1000.0 + (a == 0 ? 200.0 : 0.0) + 1e-3 * i);}
    cloud.push_back(q);
  }
  NormalSet<PT> normals(cloud.size()); std::vector<S> curv(cloud.size());
  NormalAndCurvatureEstimation<PT> est((size_t)k);
  est.compute(cloud, normals, curv);
  bool unit = true, facing = true, cr = true;
  for (size_t i = 0; i < cloud.size(); ++i) {
    double nn = 0, dp = 0;
    for (size_t a = 0; a < DIM; ++a) {nn += (double)normals[i][a] * normals[i][a]; dp += (double)normals[i][a] * cloud[i][a];}
    if (std::fabs(nn - 1) > (sizeof(S) == 4 ? 1e-4 : 1e-9)) {unit = false;}
    if (dp > 1e-6 * 300) {facing = false;}
    if (!((double)curv[i] >= -1e-6 && (double)curv[i] <= 1.0 / DIM + 1e-6)) {cr = false;}
  }
  out.put(vh::Ev("range").i("dim", DIM).i("type", type).b("unit", unit).b("facing", facing).b("curvRange", cr));
}

// Generic clouds (curved, noisy): "the normal is the direction of least variance of the point's k nearest neighbours" and "the
// curvature is the share of that variance", against an independent reference (exhaustive neighbour search and a double-precision
// eigen-decomposition of the neighbours' covariance).  Points whose k-th and (k+1)-th neighbours are nearly equidistant, or whose
// two smallest eigenvalues are close (relative gap below 0.05), are left out: there the statement does not single out one answer
// at working precision.  Residuals in 1e-9 units; the specification bounds them.
template<class PT, size_t DIM>
static void leastVariance(vh::Rng & r, int type, vh::Out & out)
{
  using S = typename PT::Scalar;
  auto uni = [&](double a, double b) {return a + (b - a) * ((double)r.range(0, 1000000000) / 1e9);};
  const int k = (int)(r.coin(1, 3) ? r.pick(IV{3, 3, 4, 5, 30}) : r.range(3, 30));
  const int n = (int)r.range(k + 1, r.coin(1, 4) ? 2000 : 300);
  const int shape = (int)r.range(0, 2);                                  // curved, noisy curved, scattered
  const double bend = uni(0.005, 0.08), noise = shape == 0 ? 0.0 : shape == 1 ? uni(0.001, 0.05) : 0.0, dist = uni(8, 40);
  PointSet<PT> cloud;
  for (int i = 0; i < n; ++i) {
    PT q = mk<PT, DIM>(IV(DIM, 0));
    if (shape == 2) {for (size_t a = 0; a < DIM; ++a) {q[a] = (S)(uni(-6, 6) + (a == DIM - 1 ? dist : 0.0));}}
    else {
      double rr = 0;
      for (size_t a = 0; a + 1 < DIM; ++a) {double x = uni(-6, 6); q[a] = (S)x; rr += x * x;}
      q[DIM - 1] = (S)(dist + bend * rr + uni(-noise, noise));
    }
    cloud.push_back(q);
  }
  NormalSet<PT> normals(cloud.size()), normals2(cloud.size()); std::vector<S> curv(cloud.size());
  NormalAndCurvatureEstimation<PT> est((size_t)k);
  // the overloads that build their own kd-tree, or one caller-owned tree that other estimators (other neighbourhood sizes) and
  // plain queries have used before
  const int via = (int)r.range(0, 2);
  if (via == 0) {est.compute(cloud, normals, curv); est.compute(cloud, normals2);}
  else {
    KdTree<PT> tree(cloud);
    const int k0 = via == 1 ? std::max(3, k - (int)r.range(1, 12)) : std::min(n - 1, k + (int)r.range(1, 12));
    NormalAndCurvatureEstimation<PT> other((size_t)k0);
    NormalSet<PT> tmp(cloud.size()); std::vector<S> tmpc(cloud.size()), rel(cloud.size());
    other.compute(cloud, tree, tmp, tmpc);
    size_t qi; S qd; tree.findNearestNeighbor(cloud[0], qi, qd);
    if (r.coin()) {est.compute(cloud, tree, normals, curv);} else {est.compute(cloud, tree, normals, curv, rel);}
    est.compute(cloud, tree, normals2);
  }
  double maxSin = 0, maxCurv = 0; int checked = 0; bool sameOverloads = true;
  std::vector<std::pair<double, int>> d(n);
  for (int t = 0; t < 60; ++t) {
    const int i = (int)r.range(0, n - 1);
    for (int j = 0; j < n; ++j) {double s = 0; for (size_t a = 0; a < DIM; ++a) {double e = (double)cloud[j][a] - (double)cloud[i][a]; s += e * e;} d[j] = {s, j};}
    std::partial_sort(d.begin(), d.begin() + k + 1, d.end());
    const double dk = d[k - 1].first, dk1 = d[k].first;
    if (!(dk1 - dk > (sizeof(S) == 4 ? 1e-3 : 1e-7) * dk1)) {continue;}                // the set of k nearest neighbours is not clear-cut
    Eigen::Matrix<double, DIM, 1> mean = Eigen::Matrix<double, DIM, 1>::Zero();
    for (int j = 0; j < k; ++j) {for (size_t a = 0; a < DIM; ++a) {mean[a] += (double)cloud[d[j].second][a];}}
    mean /= (double)k;
    Eigen::Matrix<double, DIM, DIM> C = Eigen::Matrix<double, DIM, DIM>::Zero();
    for (int j = 0; j < k; ++j) {
      Eigen::Matrix<double, DIM, 1> v; for (size_t a = 0; a < DIM; ++a) {v[a] = (double)cloud[d[j].second][a] - mean[a];}
      C += v * v.transpose();
    }
    C /= (double)k;
    Eigen::SelfAdjointEigenSolver<Eigen::Matrix<double, DIM, DIM>> es(C);
    const double sum = es.eigenvalues().sum();
    if (!(sum > 0) || (es.eigenvalues()[1] - es.eigenvalues()[0]) / sum < 0.05) {continue;}
    Eigen::Matrix<double, DIM, 1> ref = es.eigenvectors().col(0), got;
    for (size_t a = 0; a < DIM; ++a) {got[a] = (double)normals[i][a]; if (normals[i][a] != normals2[i][a]) {sameOverloads = false;}}
    const double c = std::fabs(ref.dot(got)) / got.norm();
    maxSin = std::max(maxSin, std::sqrt(std::max(0.0, 1 - c * c)));
    maxCurv = std::max(maxCurv, std::fabs((double)curv[i] - es.eigenvalues()[0] / sum));
    ++checked;
  }
  auto u9 = [](double x) {double v = std::ceil(x * 1e9); return v < 2e9 ? (long long)v : 2000000000LL;};
  out.put(vh::Ev("leastvar").i("dim", DIM).i("type", type).i("float", sizeof(S) == 4).i("k", k).i("n", n).i("checked", checked).b("sameOverloads", sameOverloads)
    .vec("res", IV{u9(maxSin), u9(maxCurv)}));
}

int main(int argc, char ** argv)
{
  if (argc != 5 || std::string(argv[1]) != "random") {std::fprintf(stderr, "usage: drive_normals random seed n out\n"); return 3;}
  vh::Rng r(std::strtoull(argv[2], nullptr, 10));
  int n = std::atoi(argv[3]);
  vh::Out out(argv[4]);
  for (int k = 0; k < n; ++k) {
    if (k % 20 == 0) {out.put(vh::Ev("Reset"));}
    switch (k % 8) {
      case 0: run<Eigen::Vector2d, 2>(r, 0, out); break;
      case 1: run<Eigen::Vector2f, 2>(r, 1, out); break;
      case 2: run<Eigen::Vector3d, 3>(r, 2, out); break;
      case 3: run<Eigen::Vector3f, 3>(r, 3, out); break;
      case 4: run<HomogeneousCoordinates2d, 2>(r, 4, out); break;
      case 5: run<HomogeneousCoordinates2f, 2>(r, 5, out); break;
      case 6: run<HomogeneousCoordinates3d, 3>(r, 6, out); break;
      default: run<HomogeneousCoordinates3f, 3>(r, 7, out);
    }
    switch ((k / 8 + k) % 8) {
      case 0: leastVariance<Eigen::Vector2d, 2>(r, 0, out); break;
      case 1: leastVariance<Eigen::Vector2f, 2>(r, 1, out); break;
      case 2: leastVariance<Eigen::Vector3d, 3>(r, 2, out); break;
      case 3: leastVariance<Eigen::Vector3f, 3>(r, 3, out); break;
      case 4: leastVariance<HomogeneousCoordinates2d, 2>(r, 4, out); break;
      case 5: leastVariance<HomogeneousCoordinates2f, 2>(r, 5, out); break;
      case 6: leastVariance<HomogeneousCoordinates3d, 3>(r, 6, out); break;
      default: leastVariance<HomogeneousCoordinates3f, 3>(r, 7, out);
    }
  }
  std::printf("%lld\n", out.lines);
  return 0;
}
