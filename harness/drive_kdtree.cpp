// Conformance driver for KdTree<PointType> (C08; spec/NearestNeighbour.tla).
//   drive_kdtree random <seed> <nsets> <maxpts> <out.ndjson>
//   drive_kdtree small <out.ndjson>        every multiset of <= 3 points on a 3x3 lattice (2x2x2 in 3D), all queries, all k
// Integer points (|coord| <= 1000): squared distances are exact in float and fit TLC's integers.
#include "vh.hpp"
#include <memory>
#include "romea_core_common/pointset/KdTree.hpp"

using namespace romea::core;
using IV = std::vector<long long>;

// real coordinate = g_base + g_scale * integer (all exactly representable): far-offset frames and micro-scale clouds
static double g_base = 0, g_scale = 1;
template<class PT, size_t DIM>
static PT mk(const IV & p)
{
  PT x;
  for (size_t a = 0; a < DIM; ++a) {x[a] = (typename PT::Scalar)(g_base + g_scale * (double)p[a]);}
  if ((size_t)PT::RowsAtCompileTime > DIM) {x[DIM] = 1;}
  return x;
}

template<class PT, size_t DIM>
static void queries(const std::vector<IV> & pts, const std::vector<IV> & qs, const std::vector<int> & ks, int type, vh::Out & out)
{
  using S = typename PT::Scalar;
  PointSet<PT> ps;
  for (auto & p : pts) {ps.push_back(mk<PT, DIM>(p));}
  KdTree<PT> tree(ps);
  out.put(vh::Ev("Reset").i("dim", DIM).i("type", type).mat("pts", pts));
  size_t qi = 0;
  for (auto & q : qs) {
    PT qp = mk<PT, DIM>(q);
    size_t idx = 0; S d = 0;
    tree.findNearestNeighbor(qp, idx, d);
    bool ok = true; long long di = vh::proj((double)d / (g_scale * g_scale), ok, 1e-9);
    out.put(vh::Ev("nn").vec("q", q).i("i", (long long)idx).i("d2", di).b("exact", ok));
    int k = ks[qi++ % ks.size()];
    if (k > (int)pts.size()) {k = (int)pts.size();}
    std::vector<size_t> ix(k); std::vector<S> ds(k);
    tree.findNearestNeighbors(qp, (size_t)k, ix, ds);
    IV ixv, dsv; bool okk = true;
    for (int m = 0; m < k; ++m) {ixv.push_back((long long)ix[m]); dsv.push_back(vh::proj((double)ds[m] / (g_scale * g_scale), okk, 1e-9));}
    out.put(vh::Ev("knn").vec("q", q).i("k", k).vec("idx", ixv).vec("d2", dsv).b("exact", okk));
  }
}

template<size_t DIM>
static void dispatch(int type, const std::vector<IV> & pts, const std::vector<IV> & qs, const std::vector<int> & ks, vh::Out & out)
{
  if constexpr (DIM == 2) {
    switch (type % 4) {
      case 0: queries<Eigen::Vector2d, 2>(pts, qs, ks, 0, out); break;
      case 1: queries<Eigen::Vector2f, 2>(pts, qs, ks, 1, out); break;
      case 2: queries<HomogeneousCoordinates2d, 2>(pts, qs, ks, 2, out); break;
      default: queries<HomogeneousCoordinates2f, 2>(pts, qs, ks, 3, out);
    }
  } else {
    switch (type % 4) {
      case 0: queries<Eigen::Vector3d, 3>(pts, qs, ks, 4, out); break;
      case 1: queries<Eigen::Vector3f, 3>(pts, qs, ks, 5, out); break;
      case 2: queries<HomogeneousCoordinates3d, 3>(pts, qs, ks, 6, out); break;
      default: queries<HomogeneousCoordinates3f, 3>(pts, qs, ks, 7, out);
    }
  }
}

template<size_t DIM>
static void randomSet(vh::Rng & r, int maxpts, vh::Out & out)
{
  int n = r.coin(1, 3) ? (int)r.range(1, 12) : (int)r.range(1, maxpts);
  int shape = (int)r.range(0, 5);       // uniform, clustered, collinear/coplanar, duplicates, small lattice (many ties)
  long long m = shape == 4 ? 3 : r.pick(IV{10, 100, 1000});
  std::vector<IV> pts;
  std::vector<IV> centres;
  for (int c = 0; c < 4; ++c) {IV p; for (size_t a = 0; a < DIM; ++a) {p.push_back(r.range(-m, m));} centres.push_back(p);}
  for (int k = 0; k < n; ++k) {
    IV p;
    for (size_t a = 0; a < DIM; ++a) {p.push_back(r.range(-m, m));}
    if (shape == 1) {const IV & c = r.pick(centres); for (size_t a = 0; a < DIM; ++a) {p[a] = std::max(-1000LL, std::min(1000LL, c[a] + r.range(-5, 5)));}}
    if (shape == 2) {p[DIM - 1] = DIM == 2 ? 2 * (p[0] / 2) / 2 + 3 : 7;}              // a line (2D) / a plane (3D)
    if (shape == 3 && k > 0 && r.coin()) {p = r.pick(pts);}                            // exact duplicates
    pts.push_back(p);
  }
  std::vector<IV> qs;
  int nq = (int)r.range(4, 12);
  for (int k = 0; k < nq; ++k) {
    IV q;
    int st = (int)r.range(0, 3);
    for (size_t a = 0; a < DIM; ++a) {q.push_back(st == 0 ? r.range(-m, m) : st == 1 ? r.range(-1000, 1000) : 0);}
    if (st == 2) {q = r.pick(pts);}                                                    // a data point itself
    if (st == 3) {for (size_t a = 0; a < DIM; ++a) {q[a] = r.coin() ? 1000 : -1000;}}  // far outside
    qs.push_back(q);
  }
  std::vector<int> ks;
  for (int k = 0; k < nq; ++k) {ks.push_back((int)r.range(1, std::min(n, 50)));}
  int type = (int)r.range(0, 3);
  const bool isFloat = type % 2 == 1;
  g_base = 0; g_scale = 1;
  if (m <= 100 && r.coin(1, 3)) {
    int st = (int)r.range(0, 3);
    if (st == 3) {g_scale = isFloat ? 1024.0 : std::ldexp(1.0, 56);}                  // astronomically large coordinates: squared distances beyond 1e38 (double)
    else if (st == 0) {g_scale = 1.0 / 64; g_base = isFloat ? 1024.0 : 1048576.0;}  // a frame far from the origin (UTM-like)
    else if (st == 1) {g_scale = std::ldexp(1.0, -24);}                               // a micro-scale cloud
    else {g_scale = std::ldexp(1.0, -21); g_base = 4.0;}                              // a tight cluster away from the origin
    if (isFloat && g_base != 0 && m > 60) {g_base = 0;}                               // keep float coordinates exactly representable
  }
  dispatch<DIM>(type, pts, qs, ks, out);
  g_base = 0; g_scale = 1;
}

template<size_t DIM>
static void small(vh::Out & out)
{
  // every sequence of 1..3 points on {0,1,2}^2 ({0,1}^3), queries on {0..3}^2 ({0,1,2}^3), all k; one point type per set in turn
  const int C = DIM == 2 ? 3 : 2, Q = DIM == 2 ? 4 : 3;
  std::vector<IV> lattice, qs;
  for (int i = 0; i < (DIM == 2 ? C * C : C * C * C); ++i) {IV p; int c = i; for (size_t a = 0; a < DIM; ++a) {p.push_back(c % C); c /= C;} lattice.push_back(p);}
  for (int i = 0; i < (DIM == 2 ? Q * Q : Q * Q * Q); ++i) {IV p; int c = i; for (size_t a = 0; a < DIM; ++a) {p.push_back(c % Q); c /= Q;} qs.push_back(p);}
  int type = 0;
  size_t L = lattice.size();
  for (size_t n = 1; n <= 3; ++n) {
    size_t total = 1; for (size_t i = 0; i < n; ++i) {total *= L;}
    for (size_t code = 0; code < total; ++code) {
      std::vector<IV> pts; size_t c = code;
      for (size_t i = 0; i < n; ++i) {pts.push_back(lattice[c % L]); c /= L;}
      for (int k = 1; k <= (int)n; ++k) {dispatch<DIM>(type++, pts, qs, std::vector<int>{k}, out);}
    }
  }
}

int main(int argc, char ** argv)
{
  std::string mode = argc > 1 ? argv[1] : "";
  if (mode == "random" && argc == 6) {
    vh::Rng r(std::strtoull(argv[2], nullptr, 10));
    int n = std::atoi(argv[3]), maxpts = std::atoi(argv[4]);
    vh::Out out(argv[5]);
    for (int k = 0; k < n; ++k) {if (r.coin()) {randomSet<2>(r, maxpts, out);} else {randomSet<3>(r, maxpts, out);}}
    std::printf("%lld\n", out.lines);
    return 0;
  }
  if (mode == "small" && argc == 3) {
    vh::Out out(argv[2]);
    small<2>(out); small<3>(out);
    std::printf("%lld\n", out.lines);
    return 0;
  }
  std::fprintf(stderr, "usage: see header comment\n");
  return 3;
}
