// Conformance driver for FindRigidTransformationBySVD (C04) and FindRigidTransformationByLeastSquares (C05);
// spec/RigidFit.tla.  Exact lattices: integer points, lattice motions, consistent integer instances.
//   drive_rigid random <seed> <n> <svd|p2p|both> <out.ndjson>
#include "vh.hpp"
#include <Eigen/Geometry>
#include <Eigen/SVD>
#include "romea_core_common/transform/estimation/FindRigidTransformationBySVD.hpp"
#include "romea_core_common/transform/estimation/FindRigidTransformationByLeastSquares.hpp"

using namespace romea::core;
#include "motions.hpp"

template<class PT, size_t DIM> static PT mk(const IV & p)
{
  PT x; for (size_t a = 0; a < DIM; ++a) {x[a] = (typename PT::Scalar)p[a];}
  if ((size_t)PT::RowsAtCompileTime > DIM) {x[DIM] = 1;}
  return x;
}
template<class PT, size_t DIM> static PT mkd(const std::vector<double> & p, double last)
{
  PT x; for (size_t a = 0; a < DIM; ++a) {x[a] = (typename PT::Scalar)p[a];}
  if ((size_t)PT::RowsAtCompileTime > DIM) {x[DIM] = (typename PT::Scalar)last;}
  return x;
}

template<class PT, size_t DIM>
static void svd(vh::Rng & r, int type, vh::Out & out)
{
  using S = typename PT::Scalar;
  // float: a rank-2 (coplanar) covariance leaves the third axis to rounding noise - measured up to 1.3e-4 on 3 points
  const double tol = sizeof(S) == 4 ? 1e-3 : 1e-9;
  static std::vector<std::pair<IM, long long>> ms;
  if (ms.empty() || ms[0].first.size() != DIM) {ms.clear(); motions(DIM, ms);}
  auto & m = r.pick(ms);
  const IM & Q = m.first; long long den = m.second;
  IV t; for (size_t a = 0; a < DIM; ++a) {t.push_back(r.range(-50, 50));}
  int n = r.coin(1, 4) ? (int)r.range(3, 8) : (int)r.range(3, r.coin(1, 5) ? 500 : 40);
  int shape = (int)r.range(0, 3);                                   // generic, coplanar (3D) / spread, clustered
  std::vector<IV> src, tgt;
  auto collinear = [&]() {
      // rank of the centred source set must be >= 2 (not all collinear)
      for (size_t i = 1; i < src.size(); ++i) {for (size_t j = i + 1; j < src.size(); ++j) {
          IV u, v; for (size_t a = 0; a < DIM; ++a) {u.push_back(src[i][a] - src[0][a]); v.push_back(src[j][a] - src[0][a]);}
          if (DIM == 2) {if (u[0] * v[1] - u[1] * v[0] != 0) {return false;}}
          else {if (u[1] * v[2] - u[2] * v[1] != 0 || u[2] * v[0] - u[0] * v[2] != 0 || u[0] * v[1] - u[1] * v[0] != 0) {return false;}}
        }}
      return true;
    };
  do {
    src.clear();
    for (int k = 0; k < n; ++k) {
      IV p; for (size_t a = 0; a < DIM; ++a) {p.push_back(den * r.range(-20, 20));}
      if (shape == 1 && DIM == 3) {p[2] = den * 3;}                 // coplanar 3D set
      if (shape == 2) {for (size_t a = 0; a < DIM; ++a) {p[a] = den * (10 + r.range(-1, 1));}}     // clustered
      src.push_back(p);
    }
  } while (collinear());
  for (auto & p : src) {IV g; for (size_t a = 0; a < DIM; ++a) {long long s = 0; for (size_t b = 0; b < DIM; ++b) {s += Q[a][b] * p[b];} g.push_back(s / den + t[a]);} tgt.push_back(g);}
  // correspondences: identity, permuted, subset
  int cm = (int)r.range(0, 2);
  std::vector<int> order(n); for (int i = 0; i < n; ++i) {order[i] = i;}
  if (cm >= 1) {for (int i = n - 1; i > 0; --i) {std::swap(order[i], order[(size_t)r.range(0, i)]);}}
  // target set stored in a shuffled order so that correspondences matter
  std::vector<int> tpos(n); for (int i = 0; i < n; ++i) {tpos[i] = i;}
  if (cm >= 1) {for (int i = n - 1; i > 0; --i) {std::swap(tpos[i], tpos[(size_t)r.range(0, i)]);}}
  PointSet<PT> ps(n), pt(n);
  for (int i = 0; i < n; ++i) {ps[i] = mk<PT, DIM>(src[i]); pt[tpos[i]] = mk<PT, DIM>(tgt[i]);}
  std::vector<Correspondence> cs;
  int keep = n;
  if (cm == 2) {
    // a subset that is still not collinear: keep the first two points of a non-collinear triple; simplest: keep all but a few
    keep = std::max(3, n - (int)r.range(0, n / 3));
  }
  {
    const int ctor = (int)r.range(0, 2);
    for (int k = 0; k < n; ++k) {
      const size_t si = (size_t)order[k], ti = (size_t)tpos[order[k]];
      cs.push_back(ctor == 0 ? Correspondence(si, ti) : ctor == 1 ? Correspondence(si, ti, (double)r.range(0, 9)) :
        Correspondence(si, ti, (double)r.range(0, 9), (double)r.range(1, 20) / 20.0));
    }
  }
  if (keep < n) {
    std::vector<Correspondence> sub(cs.begin(), cs.begin() + keep);
    // make sure the kept sources are not collinear; otherwise keep everything
    std::vector<IV> bak = src; std::vector<IV> ks; for (auto & c : sub) {ks.push_back(src[c.sourcePointIndex]);}
    src = ks; bool col = collinear(); src = bak;
    if (!col) {cs = sub;}
  }
  double scale = r.pick(std::vector<double>{1, 0.5, 0.125, 4, 0.1, 0.01, 3, 1000, 1e-3});
  int how = (int)r.range(0, 3);
  // histories: one estimator and one pair of preconditioned point sets per point type, reused (recomputed) across all the
  // registrations of a run - problems of varying sizes follow each other on the same objects
  static FindRigidTransformationBySVD<PT> est;
  static PreconditionedPointSet<PT> pa, pb;
  typename FindRigidTransformationBySVD<PT>::TransformationMatrixType H;
  if (how == 0) {H = est.find(ps, pt, cs);}
  else if (how == 1) {pa.compute(ps, (S)scale); pb.compute(pt, (S)scale); H = est.find(pa, pb, cs);}
  else if (cm == 0 && how == 2) {H = est.find(ps, pt);}
  else if (cm == 0) {
    if (r.coin()) {pa.compute(ps, (S)scale); pb.compute(pt, (S)scale); H = est.find(pa, pb);}
    else {PreconditionedPointSet<PT> a(ps, (S)scale), b(pt, (S)scale); H = est.find(a, b);}
  } else {H = est.find(ps, pt, cs); how = 0;}
  bool ok = true;
  IM lin(DIM, IV(DIM)); IV ht;
  double mag = 1; for (auto v : t) {mag = std::max(mag, std::fabs((double)v));}
  for (size_t i = 0; i < DIM; ++i) {
    for (size_t j = 0; j < DIM; ++j) {double x = (double)H(i, j) * den, rx = std::nearbyint(x); if (!(std::fabs(x - rx) <= tol * den)) {ok = false;} lin[i][j] = (long long)rx;}
    double x = (double)H(i, DIM), rx = std::nearbyint(x);
    if (!(std::fabs(x - rx) <= tol * (mag + 20.0 * den * DIM))) {ok = false;}
    ht.push_back(std::fabs(rx) < 2e9 ? (long long)rx : 0);
  }
  for (size_t j = 0; j < DIM; ++j) {if (std::fabs((double)H(DIM, j)) > tol) {ok = false;}}
  if (std::fabs((double)H(DIM, DIM) - 1) > tol) {ok = false;}
  bool logged = n <= 8;
  vh::Ev e("svd");
  e.i("dim", DIM).i("type", type).mat("Q", Q).i("den", den).vec("t", t).i("n", n).i("how", how).i("corr", cm).b("logged", logged);
  if (logged) {e.mat("src", src).mat("tgt", tgt);}
  e.mat("Hlin", lin).vec("Ht", ht).b("ex", ok);
  out.put(e);
}

template<class PT, size_t DIM>
static void p2p(vh::Rng & r, int type, vh::Out & out)
{
  using S = typename PT::Scalar;
  const double tol = sizeof(S) == 4 ? 5e-3 : 1e-8;
  const size_t NP = DIM == 2 ? 3 : 6;
  int n = (int)r.range(DIM == 2 ? 6 : 12, r.coin(1, 6) ? 500 : 30);
  // a third of the clouds are large (coordinates up to +-200, not preconditioned unless the overload does it): the normal matrix
  // then has a condition number of 1e4..1e6, the upper part of the property's envelope
  const long long big = r.coin(1, 3) ? r.range(8, 22) : 1;
  // the motion itself in units of 2^-m (all parameters, hence all residuals, scaled exactly): fine motions down to 1e-4
  const double mu = std::ldexp(1.0, -(int)r.pick(IV{0, 0, 0, 8, 13}));
  IV xs; for (size_t k = 0; k < NP; ++k) {xs.push_back(r.range(-3, 3));}
  if (r.coin(1, 3)) {for (size_t k = DIM; k < NP; ++k) {xs[k] = 0;}}        // a pure translation
  std::vector<IV> src, nrm; IV ys;
  // axis-aligned unit normals cycling through +-e_i: they span the space; sources spread so that J^T J is regular
  for (int k = 0; k < n; ++k) {
    IV s, nn(DIM, 0);
    for (size_t a = 0; a < DIM; ++a) {s.push_back(big * r.range(-9, 9));}
    nn[k % DIM] = (k / DIM) % 2 ? -1 : 1;
    src.push_back(s); nrm.push_back(nn);
  }
  // inconsistent data whose minimiser is still x*: some correspondences come in twins (same source point, same normal) whose targets
  // are displaced by +d and -d along the normal - the displacement sometimes cancels one twin's residual exactly
  std::vector<int> twin(n, -1);
  if (r.coin()) {
    for (int k = (int)(2 * NP); k + 2 * (int)DIM < n; k += 2 * (int)DIM + (int)DIM * 2 * (int)r.range(0, 2)) {
      // k and k + 2 DIM carry the same normal (the normals cycle with period 2 DIM)
      src[k + 2 * DIM] = src[k]; twin[k + 2 * DIM] = k;
    }
  }
  // for the index-based overloads the target points and their normals are stored in a shuffled order, with extra unmatched targets
  int how = (int)r.range(0, 3);
  const bool indexed = how == 1 || how == 3;
  // ... or the source set is the larger one: unmatched source points, matched ones anywhere in the set
  const int extraS = indexed && r.coin(1, 3) ? (int)r.range(1, 2 * n) : 0;
  int extra = indexed && extraS == 0 ? (int)r.range(0, 10) : 0;
  std::vector<int> tpos(n + extra); for (int k = 0; k < n + extra; ++k) {tpos[k] = k;}
  if (indexed) {for (int k = n + extra - 1; k > 0; --k) {std::swap(tpos[k], tpos[(size_t)r.range(0, k)]);}}
  std::vector<int> spos(n + extraS); for (int k = 0; k < n + extraS; ++k) {spos[k] = k;}
  if (extraS) {for (int k = n + extraS - 1; k > 0; --k) {std::swap(spos[k], spos[(size_t)r.range(0, k)]);}}
  PointSet<PT> ps(n + extraS), pt(n + extra); NormalSet<PT> ns(n + extra);
  for (int k = n; k < n + extraS; ++k) {IV g; for (size_t a = 0; a < DIM; ++a) {g.push_back(r.range(-9, 9));} ps[spos[k]] = mk<PT, DIM>(g);}
  for (int k = 0; k < n + extra; ++k) {
    if (k >= n) {
      IV g, nn(DIM, 0); for (size_t a = 0; a < DIM; ++a) {g.push_back(r.range(-9, 9));} nn[(size_t)r.range(0, DIM - 1)] = 1;
      pt[tpos[k]] = mk<PT, DIM>(g);
      std::vector<double> nd; for (auto v : nn) {nd.push_back((double)v);}
      ns[tpos[k]] = mkd<PT, DIM>(nd, 0.0);
      continue;
    }
    const IV & s = src[k]; const IV & nn = nrm[k];
    IV row = DIM == 2 ? IV{nn[0], nn[1], s[0] * nn[1] - s[1] * nn[0]} :
      IV{nn[0], nn[1], nn[2], s[1] * nn[2] - s[2] * nn[1], s[2] * nn[0] - s[0] * nn[2], s[0] * nn[1] - s[1] * nn[0]};
    long long y = 0; for (size_t j = 0; j < NP; ++j) {y += row[j] * xs[j];}
    if (twin[k] >= 0) {
      // the first twin gets +d, this one -d; d equal to the consistent residual makes this twin's residual exactly zero
      const long long d = r.coin() ? y : r.range(-6, 6);
      ys[(size_t)twin[k]] += d;
      std::vector<double> g0; for (size_t a = 0; a < DIM; ++a) {g0.push_back((double)src[(size_t)twin[k]][a] + (double)ys[(size_t)twin[k]] * mu * (double)nrm[(size_t)twin[k]][a]);}
      pt[tpos[twin[k]]] = mkd<PT, DIM>(g0, 1.0);
      y -= d;
    }
    ys.push_back(y);
    std::vector<double> g; for (size_t a = 0; a < DIM; ++a) {g.push_back((double)s[a] + (double)y * mu * (double)nn[a]);}          // target = source + (row . x*) n
    ps[spos[k]] = mk<PT, DIM>(s); pt[tpos[k]] = mkd<PT, DIM>(g, 1.0);
    std::vector<double> nd; for (auto v : nn) {nd.push_back((double)v);}
    ns[tpos[k]] = mkd<PT, DIM>(nd, 0.0);
  }
  // scales that keep the condition number of the normal matrix below 1e6 (the property's envelope)
  double scale = r.pick(std::vector<double>{1, 0.5, 0.125, 4, 0.1, 0.25, 10, 2, 0.05, 1.0 / 64, 1.0 / 512});
  double condN = 1;
  {
    // the rows of the problem actually solved: the preconditioned overloads work on sources scaled by the preconditioning scale
    const double se = how >= 2 ? scale : 1.0;
    // input filter: the property's envelope is a normal matrix with condition number below 1e6
    Eigen::MatrixXd Jd(n, (int)NP);
    for (int k = 0; k < n; ++k) {
      const IV & s = src[k]; const IV & nn = nrm[k];
      IV row = DIM == 2 ? IV{nn[0], nn[1], s[0] * nn[1] - s[1] * nn[0]} :
        IV{nn[0], nn[1], nn[2], s[1] * nn[2] - s[2] * nn[1], s[2] * nn[0] - s[0] * nn[2], s[0] * nn[1] - s[1] * nn[0]};
      for (size_t j = 0; j < NP; ++j) {Jd(k, (int)j) = (double)row[j] * (j >= DIM ? se : 1.0);}
    }
    Eigen::JacobiSVD<Eigen::MatrixXd> sv(Jd.transpose() * Jd);
    if (sv.singularValues()(NP - 1) <= 0) {return;}
    condN = sv.singularValues()(0) / sv.singularValues()(NP - 1);
    // double: the whole envelope; float: up to where the single-precision normal equations still determine the answer to 25 %
    if (condN > (sizeof(S) == 4 ? 1e5 : 9e5)) {return;}
  }
  // histories: two long-lived estimators per point type (plain / preconditioned), reused for problems of varying sizes
  static FindRigidTransformationByLeastSquares<PT> estPlain, estPre;
  static PreconditionedPointSet<PT> pa, pb;
  std::vector<Correspondence> cs; for (int k = 0; k < n; ++k) {cs.push_back(Correspondence((size_t)spos[k], (size_t)tpos[k]));}
  if (indexed) {for (int k = n - 1; k > 0; --k) {std::swap(cs[k], cs[(size_t)r.range(0, k)]);}}             // any order of the list
  typename FindRigidTransformationByLeastSquares<PT>::TransformationMatrixType H;
  if (how == 0) {H = estPlain.find(ps, pt, ns);}
  else if (how == 1) {H = estPlain.find(ps, pt, ns, cs);}
  else {
    pa.compute(ps, (S)scale); pb.compute(pt, (S)scale);
    estPre.setPreconditioner(pa, pb);
    // the configured estimator itself, or a copy of it (copy construction, a vector element, copy assignment): a copy is configured
    // as its source is
    const int via = (int)r.range(0, 5);
    if (via <= 2) {H = how == 2 ? estPre.find(pa, pb, ns) : estPre.find(pa, pb, ns, cs);}
    else if (via == 3) {FindRigidTransformationByLeastSquares<PT> c(estPre); H = how == 2 ? c.find(pa, pb, ns) : c.find(pa, pb, ns, cs);}
    else if (via == 4) {
      std::vector<FindRigidTransformationByLeastSquares<PT>> v; v.push_back(estPre); v.push_back(estPlain); v.push_back(estPre);
      H = how == 2 ? v[0].find(pa, pb, ns) : v[2].find(pa, pb, ns, cs);
    } else {FindRigidTransformationByLeastSquares<PT> c; c = estPre; H = how == 2 ? c.find(pa, pb, ns) : c.find(pa, pb, ns, cs);}
  }
  bool ok = true;
  IM Hm(DIM + 1, IV(DIM + 1));
  for (size_t i = 0; i <= DIM; ++i) {for (size_t j = 0; j <= DIM; ++j) {
      // the solver works on the normal matrix: its rounding error grows with that matrix's condition number
      const double tolq = std::max(tol * 10, 20.0 * (double)std::numeric_limits<S>::epsilon() * condN * 4.0);
      // identity + (skew + translation) in units of the motion
      const double id = i == j ? 1.0 : 0.0;
      double x = ((double)H(i, j) - id) / mu + id, rx = std::nearbyint(x); if (!(std::fabs(x - rx) <= tolq)) {ok = false;} Hm[i][j] = std::fabs(rx) < 2e9 ? (long long)rx : 0;}}
  IV x = DIM == 2 ? IV{Hm[0][2], Hm[1][2], Hm[1][0]} : IV{Hm[0][3], Hm[1][3], Hm[2][3], Hm[2][1], Hm[0][2], Hm[1][0]};
  out.put(vh::Ev("p2p").i("dim", DIM).i("type", type).i("how", how).mat("src", src).mat("nrm", nrm).vec("ys", ys).vec("xstar", xs).vec("x", x)
    .mat("Hm", Hm).b("ex", ok));
}

// generic real-valued instances: residuals in units of 1e-12 (float: capped at 2e9 = 2e-3)
template<class PT, size_t DIM>
static void generic(vh::Rng & r, bool svdPart, bool p2pPart, vh::Out & out)
{
  using S = typename PT::Scalar;
  using MatD = Eigen::Matrix<double, DIM, DIM>;
  using VecD = Eigen::Matrix<double, DIM, 1>;
  auto u = [&]() {return (double)r.range(-1000000, 1000000) / 1000000.0;};
  auto units = [](double v) {double x = std::fabs(v) * 1e12; return x < 2e9 ? (long long)std::llround(x) : 2000000000LL;};
  std::vector<long long> res;
  // a random proper rotation: any axis, angle up to pi
  MatD R; VecD t;
  {
    double ang = u() * M_PI;
    if (DIM == 2) {R(0, 0) = std::cos(ang); R(0, 1) = -std::sin(ang); R(1, 0) = std::sin(ang); R(1, 1) = std::cos(ang);}
    else {
      Eigen::Vector3d ax(u(), u(), u()); if (ax.norm() < 1e-3) {ax = Eigen::Vector3d(0, 0, 1);}
      Eigen::Matrix3d R3 = Eigen::AngleAxisd(ang, ax.normalized()).toRotationMatrix();
      for (size_t i = 0; i < DIM; ++i) {for (size_t j = 0; j < DIM; ++j) {R(i, j) = R3(i, j);}}
    }
    for (size_t a = 0; a < DIM; ++a) {t[a] = u() * 30;}
  }
  if (svdPart) {
    int n = (int)r.range(4, r.coin(1, 5) ? 500 : 40);
    int shape = (int)r.range(0, 4);                                    // generic, coplanar (3D), noisy, a small cluster far from the origin, thin AND noisy
    std::vector<VecD> src(n), tgt(n);
    VecD far = VecD::Zero();
    if (shape == 3) {for (size_t a = 0; a < DIM; ++a) {far[a] = (sizeof(S) == 4 ? 300.0 : 1.0e5) * (0.3 + 0.7 * u());}}
    for (int k = 0; k < n; ++k) {
      for (size_t a = 0; a < DIM; ++a) {src[k][a] = shape == 3 ? far[a] + u() : u() * 20;}
      if (shape == 1 && DIM == 3) {src[k][DIM - 1] = 1.5;}
      if (shape == 4) {src[k][DIM - 1] = 1.5;}                          // a plane (3D) / a line (2D) ...
      tgt[k] = R * src[k] + t;
      if (shape == 2) {for (size_t a = 0; a < DIM; ++a) {tgt[k][a] += u() * 0.05;}}
      if (shape == 4) {for (size_t a = 0; a < DIM; ++a) {tgt[k][a] += u() * 0.05; src[k][a] += u() * 0.05;}}     // ... with noise on both sets
    }
    // the target set is stored in its own order and may hold extra, unmatched points; the correspondence list is a
    // permutation or a subset of the pairs (identity pairs for the aligned overloads)
    int how = (int)r.range(0, 3);
    const bool aligned = how == 0 || how == 2;
    int extra = aligned ? 0 : (int)r.range(0, n / 2);
    std::vector<int> tpos(n + extra); for (int k = 0; k < n + extra; ++k) {tpos[k] = k;}
    if (!aligned) {for (int k = n + extra - 1; k > 0; --k) {std::swap(tpos[k], tpos[(size_t)r.range(0, k)]);}}
    PointSet<PT> ps(n), pt(n + extra);
    for (int k = 0; k < n + extra; ++k) {
      if (k < n) {
        std::vector<double> a(src[k].data(), src[k].data() + DIM), b(tgt[k].data(), tgt[k].data() + DIM);
        ps[k] = mkd<PT, DIM>(a, 1.0); pt[tpos[k]] = mkd<PT, DIM>(b, 1.0);
      } else {
        std::vector<double> b(DIM); for (size_t a = 0; a < DIM; ++a) {b[a] = far[a] + u() * 20;}
        pt[tpos[k]] = mkd<PT, DIM>(b, 1.0);
      }
    }
    std::vector<Correspondence> cs;
    int keep = aligned ? n : std::max(4, n - (int)r.range(0, n / 2));
    std::vector<int> order(n); for (int k = 0; k < n; ++k) {order[k] = k;}
    if (!aligned) {for (int k = n - 1; k > 0; --k) {std::swap(order[k], order[(size_t)r.range(0, k)]);}}
    // correspondences as a matcher hands them over: with or without a squared distance and a confidence weight (the estimator is unweighted)
    const int ctor = (int)r.range(0, 2);
    for (int k = 0; k < keep; ++k) {
      const size_t si = (size_t)order[k], ti = (size_t)tpos[order[k]];
      cs.push_back(ctor == 0 ? Correspondence(si, ti) : ctor == 1 ? Correspondence(si, ti, 0.25 + u() * u()) :
        Correspondence(si, ti, 0.25 + u() * u(), 0.05 + 0.95 * std::fabs(u())));
    }
    // independent Kabsch / Umeyama solution (double) over the matched pairs, on the values the estimator actually sees
    VecD ms = VecD::Zero(), mt = VecD::Zero();
    for (auto & c : cs) {for (size_t a = 0; a < DIM; ++a) {ms[a] += (double)ps[c.sourcePointIndex][a]; mt[a] += (double)pt[c.targetPointIndex][a];}}
    ms /= (double)cs.size(); mt /= (double)cs.size();
    MatD C = MatD::Zero();
    for (auto & c : cs) {VecD x, y; for (size_t a = 0; a < DIM; ++a) {x[a] = (double)ps[c.sourcePointIndex][a] - ms[a]; y[a] = (double)pt[c.targetPointIndex][a] - mt[a];} C += y * x.transpose();}
    Eigen::JacobiSVD<Eigen::MatrixXd> sv(C, Eigen::ComputeFullU | Eigen::ComputeFullV);
    Eigen::MatrixXd Dg = Eigen::MatrixXd::Identity(DIM, DIM);
    if ((sv.matrixU() * sv.matrixV().transpose()).determinant() < 0) {Dg(DIM - 1, DIM - 1) = -1;}
    MatD Rk = sv.matrixU() * Dg * sv.matrixV().transpose();
    VecD tk = mt - Rk * ms;
    double scale = r.pick(std::vector<double>{1, 0.5, 4, 0.1, 10});
    FindRigidTransformationBySVD<PT> est;
    typename FindRigidTransformationBySVD<PT>::TransformationMatrixType H;
    if (how == 0) {H = est.find(ps, pt);} else if (how == 1) {H = est.find(ps, pt, cs);}
    else {PreconditionedPointSet<PT> a(ps, (S)scale), b(pt, (S)scale); H = how == 2 ? est.find(a, b) : est.find(a, b, cs);}
    double e1 = 0, e2 = 0;
    for (size_t i = 0; i < DIM; ++i) {
      for (size_t j = 0; j < DIM; ++j) {e1 = std::max(e1, std::fabs((double)H(i, j) - Rk(i, j)));}
      e2 = std::max(e2, std::fabs((double)H(i, DIM) - tk[i]) / (50.0 + far.norm()));
    }
    MatD Hl; for (size_t i = 0; i < DIM; ++i) {for (size_t j = 0; j < DIM; ++j) {Hl(i, j) = (double)H(i, j);}}
    res.push_back(units(e1)); res.push_back(units(e2));                                            // agrees with the independent Kabsch solution
    res.push_back(units((Hl * Hl.transpose() - MatD::Identity()).cwiseAbs().maxCoeff()));          // orthonormal
    res.push_back(units(Hl.determinant() - 1));                                                    // proper
    if (shape != 2 && shape != 4) {                                                                // noise free: the motion itself
      double e3 = 0; for (size_t i = 0; i < DIM; ++i) {for (size_t j = 0; j < DIM; ++j) {e3 = std::max(e3, std::fabs((double)H(i, j) - R(i, j)));}}
      // float inputs are rounded versions of the exact targets: the recovered motion is exact up to that rounding
      res.push_back(units(sizeof(S) == 4 ? e3 / 50.0 : e3 / (1.0 + far.norm() / 100.0)));
    }
  }
  if (p2pPart) {
    const size_t NP = DIM == 2 ? 3 : 6;
    int n = (int)r.range(DIM == 2 ? 8 : 16, 60);
    Eigen::VectorXd xs(NP);
    for (size_t k = 0; k < DIM; ++k) {xs[k] = u() * 10;}
    for (size_t k = DIM; k < NP; ++k) {xs[k] = u() * 0.1;}
    PointSet<PT> ps(n), pt(n); NormalSet<PT> ns(n);
    Eigen::MatrixXd J(n, (int)NP);
    for (int k = 0; k < n; ++k) {
      VecD s, nn;
      for (size_t a = 0; a < DIM; ++a) {s[a] = u() * 10; nn[a] = u();}
      if (nn.norm() < 0.1) {nn[0] = 1;}
      nn.normalize();
      std::vector<double> sv(s.data(), s.data() + DIM), nv(nn.data(), nn.data() + DIM);
      ps[k] = mkd<PT, DIM>(sv, 1.0); ns[k] = mkd<PT, DIM>(nv, 0.0);
      // the row as the estimator will see it (rounded to S)
      Eigen::VectorXd row(NP);
      double sx = (double)ps[k][0], sy = (double)ps[k][1], nx = (double)ns[k][0], ny = (double)ns[k][1];
      if (DIM == 2) {row << nx, ny, sx * ny - sy * nx;}
      else {double sz = (double)ps[k][2], nz = (double)ns[k][2]; row << nx, ny, nz, sy * nz - sz * ny, sz * nx - sx * nz, sx * ny - sy * nx;}
      J.row(k) = row.transpose();
      double y = row.dot(xs);
      std::vector<double> g(DIM); for (size_t a = 0; a < DIM; ++a) {g[a] = (double)ps[k][a] + y * (double)ns[k][a];}
      pt[k] = mkd<PT, DIM>(g, 1.0);
    }
    Eigen::JacobiSVD<Eigen::MatrixXd> sv(J.transpose() * J);
    if (sv.singularValues()(NP - 1) > 0 && sv.singularValues()(0) / sv.singularValues()(NP - 1) < 1e4) {
      FindRigidTransformationByLeastSquares<PT> est;
      std::vector<Correspondence> cs; for (int k = 0; k < n; ++k) {cs.push_back(Correspondence((size_t)k, (size_t)k));}
      auto H = r.coin() ? est.find(ps, pt, ns) : est.find(ps, pt, ns, cs);
      Eigen::VectorXd x(NP);
      if (DIM == 2) {x << (double)H(0, 2), (double)H(1, 2), (double)H(1, 0);}
      else {x << (double)H(0, 3), (double)H(1, 3), (double)H(2, 3), (double)H(2, 1), (double)H(0, 2), (double)H(1, 0);}
      res.push_back(units((x - xs).cwiseAbs().maxCoeff() / (sizeof(S) == 4 ? 10.0 : 1.0)));
      // skew structure of the returned matrix
      double sk = 0; for (size_t i = 0; i < DIM; ++i) {for (size_t j = 0; j < DIM; ++j) {sk = std::max(sk, std::fabs((double)H(i, j) + (double)H(j, i) - (i == j ? 2.0 : 0.0)));}}
      res.push_back(units(sk));
    }
  }
  out.put(vh::Ev("generic").i("dim", DIM).i("float", sizeof(S) == 4).vec("res", res));
}

int main(int argc, char ** argv)
{
  if (argc != 6 || std::string(argv[1]) != "random") {std::fprintf(stderr, "usage: drive_rigid random seed n svd|p2p|both out\n"); return 3;}
  const bool doSvd = std::string(argv[4]) != "p2p", doP2p = std::string(argv[4]) != "svd";
  vh::Rng r(std::strtoull(argv[2], nullptr, 10));
  int n = std::atoi(argv[3]);
  vh::Out out(argv[5]);
  for (int k = 0; k < n; ++k) {
    if (k % 50 == 0) {out.put(vh::Ev("Reset"));}
    switch (k % 8) {
      case 0: generic<Eigen::Vector2d, 2>(r, doSvd, doP2p, out); break;
      case 1: generic<Eigen::Vector3d, 3>(r, doSvd, doP2p, out); break;
      case 2: generic<HomogeneousCoordinates3d, 3>(r, doSvd, doP2p, out); break;
      case 3: generic<Eigen::Vector3f, 3>(r, doSvd, doP2p, out); break;
      case 4: generic<HomogeneousCoordinates2f, 2>(r, doSvd, doP2p, out); break;
      default: generic<HomogeneousCoordinates2d, 2>(r, doSvd, doP2p, out);
    }
    switch (k % 8) {
      case 0: if (doSvd) {svd<Eigen::Vector2d, 2>(r, 0, out);} if (doP2p) {p2p<Eigen::Vector2d, 2>(r, 0, out);} break;
      case 1: if (doSvd) {svd<Eigen::Vector2f, 2>(r, 1, out);} if (doP2p) {p2p<Eigen::Vector2f, 2>(r, 1, out);} break;
      case 2: if (doSvd) {svd<Eigen::Vector3d, 3>(r, 2, out);} if (doP2p) {p2p<Eigen::Vector3d, 3>(r, 2, out);} break;
      case 3: if (doSvd) {svd<Eigen::Vector3f, 3>(r, 3, out);} if (doP2p) {p2p<Eigen::Vector3f, 3>(r, 3, out);} break;
      case 4: if (doSvd) {svd<HomogeneousCoordinates2d, 2>(r, 4, out);} if (doP2p) {p2p<HomogeneousCoordinates2d, 2>(r, 4, out);} break;
      case 5: if (doSvd) {svd<HomogeneousCoordinates2f, 2>(r, 5, out);} if (doP2p) {p2p<HomogeneousCoordinates2f, 2>(r, 5, out);} break;
      case 6: if (doSvd) {svd<HomogeneousCoordinates3d, 3>(r, 6, out);} if (doP2p) {p2p<HomogeneousCoordinates3d, 3>(r, 6, out);} break;
      default: if (doSvd) {svd<HomogeneousCoordinates3f, 3>(r, 7, out);} if (doP2p) {p2p<HomogeneousCoordinates3f, 3>(r, 7, out);}
    }
  }
  std::printf("%lld\n", out.lines);
  return 0;
}
