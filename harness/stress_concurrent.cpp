// Concurrent stress harness for C19 (spec/Trace_Concurrent.tla, spec/Concurrent.tla).
//   stress_concurrent <kind> <readers> <ops> <seed> <out.ndjson|->      (appends one execution)
// kinds: sv svw sov avg var ckeq ckgt cklt rel rm rceq rcgt
// Built twice: with -DVERIF_TRACE and -Wl,--wrap=pthread_mutex_lock,--wrap=pthread_mutex_unlock it
// records inv/lock/unlock/res events ordered by one global atomic sequence number; without it
// (and with -fsanitize=thread) it is the same workload for ThreadSanitizer, out = "-".
#include "vh.hpp"
#include <atomic>
#include <cstring>
#include <functional>
#include <memory>
#include <optional>
#include <pthread.h>
#include <thread>
#include <type_traits>
#include "romea_core_common/concurrency/SharedVariable.hpp"
#include "romea_core_common/concurrency/SharedOptionalVariable.hpp"
#include "romea_core_common/monitoring/OnlineAverage.hpp"
#include "romea_core_common/monitoring/OnlineVariance.hpp"
#include "romea_core_common/monitoring/RateMonitoring.hpp"
#include "romea_core_common/diagnostic/CheckupEqualTo.hpp"
#include "romea_core_common/diagnostic/CheckupGreaterThan.hpp"
#include "romea_core_common/diagnostic/CheckupLowerThan.hpp"
#include "romea_core_common/diagnostic/CheckupReliability.hpp"
#include "romea_core_common/diagnostic/CheckupRate.hpp"

using namespace romea::core;

// ----------------------------------------------------------------------------- recording
struct Rec {long long seq; int type; int t; int m; long long a, b, c, d, e;};   // type 0 inv 1 lock 2 unlock 3 res
static std::atomic<long long> g_seq{0};
static char * g_lo = nullptr, * g_hi = nullptr;      // footprint of the object under test
static thread_local std::vector<Rec> * tl_buf = nullptr;
static thread_local int tl_id = -1;
enum M {STORE, LOAD, CONSUME, UPDATE, GETAVG, ISAVAIL, GETVAR, EVALUATE, TIMEOUT, GETREPORT, STAMP, HB, RESET};
static const char * MN[] = {"store", "load", "consume", "update", "getAverage", "isAvailable", "getVariance", "evaluate",
  "timeout", "getReport", "stamp", "hb", "reset"};

#ifdef VERIF_TRACE
static inline void rec(int type, int m, long long a = 0, long long b = 0, long long c = 0, long long d = 0, long long e = 0)
{
  if (tl_buf) {tl_buf->push_back(Rec{g_seq.fetch_add(1) + 1, type, tl_id, m, a, b, c, d, e});}
}
extern "C" int __real_pthread_mutex_lock(pthread_mutex_t * m);
extern "C" int __real_pthread_mutex_unlock(pthread_mutex_t * m);
extern "C" int __wrap_pthread_mutex_lock(pthread_mutex_t * m)
{
  int r = __real_pthread_mutex_lock(m);
  if (tl_buf && (char *)m >= g_lo && (char *)m < g_hi) {rec(1, 0, (char *)m - g_lo);}    // after the lock is held
  return r;
}
extern "C" int __wrap_pthread_mutex_unlock(pthread_mutex_t * m)
{
  if (tl_buf && (char *)m >= g_lo && (char *)m < g_hi) {rec(2, 0, (char *)m - g_lo);}    // before it is released
  return __real_pthread_mutex_unlock(m);
}
// reader / writer locks (std::shared_mutex) inside the object count as its mutexes too
extern "C" int __real_pthread_rwlock_wrlock(pthread_rwlock_t * m);
extern "C" int __real_pthread_rwlock_rdlock(pthread_rwlock_t * m);
extern "C" int __real_pthread_rwlock_unlock(pthread_rwlock_t * m);
extern "C" int __wrap_pthread_rwlock_wrlock(pthread_rwlock_t * m)
{
  int r = __real_pthread_rwlock_wrlock(m);
  if (tl_buf && (char *)m >= g_lo && (char *)m < g_hi) {rec(1, 0, (char *)m - g_lo);}
  return r;
}
extern "C" int __wrap_pthread_rwlock_rdlock(pthread_rwlock_t * m)
{
  int r = __real_pthread_rwlock_rdlock(m);
  if (tl_buf && (char *)m >= g_lo && (char *)m < g_hi) {rec(1, 0, (char *)m - g_lo);}
  return r;
}
extern "C" int __wrap_pthread_rwlock_unlock(pthread_rwlock_t * m)
{
  if (tl_buf && (char *)m >= g_lo && (char *)m < g_hi) {rec(2, 0, (char *)m - g_lo);}
  return __real_pthread_rwlock_unlock(m);
}
#else
// without recording the observed values must still be USED, or the optimiser removes the reads ThreadSanitizer is meant to see
static thread_local volatile long long tl_sink = 0;
static inline void rec(int, int, long long a = 0, long long b = 0, long long c = 0, long long d = 0, long long e = 0) {tl_sink = tl_sink + a + b + c + d + e;}
#endif
static volatile long long g_sink = 0;
static inline void tl_sink_use(long long v) {g_sink = g_sink + v;}
static inline void inv(int m, long long arg = 0, long long b = 0, long long c = 0, long long d = 0) {rec(0, m, arg, b, c, d);}
static inline void res(int m, long long a = 0, long long b = 0, long long c = 0, long long d = 0, long long e = 0) {rec(3, m, a, b, c, d, e);}

// Calls that leave the object's state as it was (reads, a consume that found nothing, a heartbeat that did not expire) are recorded
// in full at first and then thinned out: once a thread has kept many of them, only one in 2, 4, 8.. is kept; the events of a
// dropped call (its inv, lock, unlock, res) are removed from the thread's buffer.  A dropped call is a call nobody checked; the
// recorded history stays a valid history of the object.  Calls that change the state are always kept.
struct Thinner
{
  size_t mark = 0; long long kept = 0, seen = 0, quota;
  explicit Thinner(long long q) : quota(std::max<long long>(64, q)) {}
  void begin() {if (tl_buf) {mark = tl_buf->size();}}
  void end(bool changedState)
  {
    if (!tl_buf) {return;}
    ++seen;
    const long long stride = 1LL << std::min<long long>(20, kept / quota);
    if (changedState || seen % stride == 0) {++kept;} else {tl_buf->resize(mark);}
  }
};

// ----------------------------------------------------------------------------- projections
static const std::string NAME = "thing";
static int verdictCode(const std::string & msg, const std::string & name)
{
  // 0 none 1 ok 2 low 3 high 4 uncertain 5 reliable 6 timeout 7 nodata 8 other
  static const std::pair<const char *, int> ends[] = {{" is too low.", 2}, {" is too high.", 3}, {" is OK.", 1},
    {" is uncertain.", 4}, {" is high.", 5}, {" timeout.", 6}};
  if (msg.empty()) {return 0;}
  if (msg.find("no data received") != std::string::npos) {return 7;}
  for (auto & e : ends) {
    std::string end = e.first;
    if (msg.size() >= end.size() && msg.compare(msg.size() - end.size(), end.size(), end) == 0 && msg.find(NAME) != std::string::npos) {return e.second;}
  }
  (void)name;
  return 8;
}
static const char * VN[] = {"none", "ok", "low", "high", "uncertain", "reliable", "timeout", "nodata", "other"};
struct RepObs {long long status, verdict, has, value;};
static RepObs projReport(const DiagnosticReport & r, const std::string & name, double spanScale)
{
  RepObs o{};
  const Diagnostic & d = r.diagnostics.front();
  o.status = (int)d.status;
  o.verdict = verdictCode(d.message, name);
  const std::string & info = r.info.begin()->second;
  o.has = !info.empty();
  o.value = -1;
  if (o.has) {
    char * end = nullptr;
    double x = std::strtod(info.c_str(), &end);
    if (*end == 0) {
      if (spanScale > 0) {o.value = x == 0 ? 0 : (x > 0 && spanScale / x < 2e9 ? (long long)std::nearbyint(spanScale / x) : -1);}
      else {bool ok = true; o.value = vh::proj(x, ok, 1e-9); if (!ok) {o.value = 1000000007;}}
    }
  }
  return o;
}

struct Pair {long long a = 0, b = ~0LL;};

// the bit pattern of a double as three small integers (TLC's integers are 32-bit); every NaN is one token
struct Bits {long long hi, mid, lo;};
static Bits bitsOf(double v)
{
  if (std::isnan(v)) {return Bits{-1, 0, 0};}
  uint64_t u; std::memcpy(&u, &v, sizeof u);
  return Bits{(long long)(u >> 44), (long long)((u >> 22) & 0x3FFFFF), (long long)(u & 0x3FFFFF)};
}

struct Work
{
  std::string kind;
  int readers;
  long long ops;
  uint64_t seed;
  std::vector<std::vector<Rec>> bufs;
  std::string resetLine;
  std::vector<std::thread> threads;
  std::atomic<bool> stop{false};
  std::atomic<bool> go{false};
  std::atomic<long long> lastStamp{0};
  // calls completed by the writer(s): readers pace themselves on it (at most a few calls per writer call, plus a budget), so that a
  // reader-preferring lock cannot starve the writer under eight spinning readers - and a writer that is stuck for good still hangs
  std::atomic<long long> progress{0};
  int nthreads = 0;
  bool pace(long long & mine)
  {
    if (mine > 6 * (progress.load(std::memory_order_relaxed) + 1) + 64) {std::this_thread::yield(); return false;}
    ++mine;
    return true;
  }

  template<class F> void spawn(F f)
  {
    int id = nthreads++;
    bufs.emplace_back();
    threads.emplace_back([this, id, f]() {
        tl_id = id;
#ifdef VERIF_TRACE
        bufs[id].reserve(1 << 16);
        tl_buf = &bufs[id];
#endif
        vh::Rng r(seed * 131 + id);
        while (!go) {std::this_thread::yield();}      // all threads start together
        f(r);
        tl_buf = nullptr;
      });
  }
  void join() {go = true; for (auto & t : threads) {t.join();}}
};

template<class T> static void footprint(T & obj) {g_lo = (char *)&obj; g_hi = g_lo + sizeof(T);}

static std::string reset(const std::string & kind, int threads, const std::string & ck = "eq", long long a = 0, long long b = 0, int W = 1)
{
  return vh::Ev("Reset").str("kind", kind).i("threads", threads).str("ck", ck).i("a", a).i("b", b).i("W", W).done();
}

// each runner: writer does `ops` mutating calls, readers spin until the writer is done
static void runSV(Work & w)
{
  static SharedVariable<Pair> sv;
  footprint(sv);
  w.bufs.reserve(16);
  w.spawn([&](vh::Rng &) {
      for (long long k = 1; k <= w.ops; ++k) {inv(STORE, k); if (k % 2) {sv.store(Pair{k, ~k});} else {sv = Pair{k, ~k};} res(STORE); ++w.progress;}
      w.stop = true;
    });
  for (int i = 0; i < w.readers; ++i) {
    w.spawn([&](vh::Rng &) {
        long long n = 0; Thinner th(w.ops / 8);
        for (long long mine = 0; !w.stop;) {if (!w.pace(mine)) {continue;}th.begin(); inv(LOAD); Pair p = (++n % 2) ? sv.load() : static_cast<Pair>(sv); res(LOAD, p.a, p.b != ~p.a); th.end(false);}
      });
  }
  w.join();
  w.resetLine = reset("sv", w.nthreads);
}

static void runSVW(Work & w)
{
  static SharedVariable<long long> sv;
  footprint(sv);
  w.bufs.reserve(16);
  w.spawn([&](vh::Rng &) {
      for (long long k = 1; k <= w.ops; ++k) {inv(STORE, k); if (k % 2) {sv.store(k);} else {sv = k;} res(STORE); ++w.progress;}
      w.stop = true;
    });
  for (int i = 0; i < w.readers; ++i) {
    w.spawn([&](vh::Rng &) {
        long long n = 0; Thinner th(w.ops / 8);
        for (long long mine = 0; !w.stop;) {if (!w.pace(mine)) {continue;}th.begin(); inv(LOAD); long long v = (++n % 2) ? sv.load() : static_cast<long long>(sv); res(LOAD, v, 0); th.end(false);}
      });
  }
  w.join();
  w.resetLine = reset("sv", w.nthreads);
}

static void runSOV(Work & w)
{
  static SharedOptionalVariable<long long> sov;
  footprint(sov);
  w.bufs.reserve(16);
  int producers = std::max(1, std::min(4, w.readers)), consumers = std::max(1, std::min(4, w.readers));
  std::atomic<int> live{producers};
  for (int p = 0; p < producers; ++p) {
    w.spawn([&, p](vh::Rng &) {
        for (long long k = 1; k <= w.ops / producers; ++k) {long long id = (p + 1) * 10000000LL + k; inv(STORE, id); sov.store(id); res(STORE); ++w.progress;}
        if (--live == 0) {w.stop = true;}
      });
  }
  for (int c = 0; c < consumers; ++c) {
    w.spawn([&](vh::Rng &) {
        Thinner th(w.ops / 8);
        for (long long mine = 0; !w.stop;) {if (!w.pace(mine)) {continue;}th.begin(); inv(CONSUME); auto v = sov.consume(); res(CONSUME, v ? *v : 0); th.end(v.has_value());}
      });
  }
  w.join();
  w.resetLine = reset("sov", w.nthreads);
}

template<class S>
static void runStats(Work & w, bool var)
{
  const int W = var ? 4 : 5;
  const double prec = 0.5, M = 2;
  static S * st = nullptr;
  delete st;
  st = new S(prec, W);
  footprint(*st);
  w.bufs.reserve(16);
  w.spawn([&](vh::Rng & r) {
      // a replica of the object, used by the writer thread alone, is given the same calls first: what it reports is what the
      // sequential execution of this history reports (for the variance while the window is filling, which C16 leaves open)
      S replica(prec, W);
      auto seqVar = [&]() {
          if constexpr (std::is_same_v<S, OnlineVariance>) {return bitsOf(replica.getVariance());} else {return Bits{0, 0, 0};}
        };
      for (long long k = 0; k < w.ops; ++k) {
        if (r.coin(1, 40)) {replica.reset(); Bits b = seqVar(); inv(RESET, 0, b.hi, b.mid, b.lo); st->reset(); res(RESET); ++w.progress; continue;}
        long long q = r.range(-40, 40);
        replica.update((q / 4.0) * prec); Bits b = seqVar();
        inv(UPDATE, q, b.hi, b.mid, b.lo); st->update((q / 4.0) * prec); res(UPDATE); ++w.progress;
      }
      w.stop = true;
    });
  for (int i = 0; i < w.readers; ++i) {
    w.spawn([&, i](vh::Rng & r) {
        Thinner th(w.ops / 8);
        for (long long mine = 0; !w.stop;) {if (!w.pace(mine)) {continue;}
          th.begin();
          int what = (int)r.range(0, var ? 2 : 1);
          if (what == 0) {
            inv(GETAVG); double a = st->getAverage();
            bool nan = std::isnan(a), ex = true; long long v = nan ? 0 : vh::proj(a * M * 840, ex, 1e-7);
            res(GETAVG, v, nan, ex);
          } else if (what == 1) {
            inv(ISAVAIL); bool b = st->isAvailable(); res(ISAVAIL, b);
          } else {
            inv(GETVAR);
            double v = static_cast<OnlineVariance *>((OnlineAverage *)st)->getVariance();
            bool ex = true; long long x = std::isnan(v) ? 0 : vh::proj(v * M * M * W * (W - 1.0), ex, 1e-7);
            if (std::isnan(v)) {ex = false;}
            Bits b = bitsOf(v);
            res(GETVAR, ex ? x : 0, b.hi, ex, b.mid, b.lo);
          }
          th.end(false);
          (void)i;
        }
      });
  }
  w.join();
  w.resetLine = reset(var ? "var" : "avg", w.nthreads, "eq", 0, 0, W);
}

template<class C>
static void runCheckup(Work & w, const std::string & ck, bool hasTimeout, bool neighbour = false)
{
  const long long a = ck == "rel" ? 10 : 20, b = ck == "rel" ? 30 : 5;
  static C * c = nullptr;
  delete c;
  c = new C(NAME, (double)a, (double)b);
  footprint(*c);
  w.bufs.reserve(16);
  w.spawn([&](vh::Rng & r) {
      for (long long k = 0; k < w.ops; ++k) {
        if (hasTimeout && r.coin(1, 8)) {
          if constexpr (!std::is_same_v<C, CheckupReliability>) {inv(TIMEOUT); c->timeout(); res(TIMEOUT); ++w.progress;}
          continue;
        }
        long long v = r.range(0, 45);
        inv(EVALUATE, v); DiagnosticStatus s = c->evaluate((double)v); res(EVALUATE, (int)s); ++w.progress;
      }
      w.stop = true;
    });
  // a neighbour: another check-up object of the same value type, with its own writer and reader, busy at the same time (its
  // calls are not part of the recorded history of the object under test: objects share nothing)
  static CheckupLowerThan<double> * other = nullptr;
  if (neighbour) {
    delete other;
    other = new CheckupLowerThan<double>("neighbour", 1000.0, 2.0);
    w.spawn([&](vh::Rng & r) {
        tl_buf = nullptr;
        while (!w.stop) {other->evaluate(900.0 + (double)r.range(0, 200)); if (r.coin(1, 16)) {other->timeout();}}
      });
    w.spawn([&](vh::Rng &) {
        tl_buf = nullptr;
        long long sink = 0;
        for (long long mine = 0; !w.stop;) {if (!w.pace(mine)) {continue;}DiagnosticReport rep = other->getReport(); sink += (long long)rep.diagnostics.size() + (long long)rep.info.begin()->second.size();}
        tl_sink_use(sink);
      });
  }
  for (int i = 0; i < w.readers; ++i) {
    w.spawn([&](vh::Rng &) {
        Thinner th(w.ops / 8);
        for (long long mine = 0; !w.stop;) {if (!w.pace(mine)) {continue;}
          th.begin();
          inv(GETREPORT);
          DiagnosticReport rep = c->getReport();       // the copy a caller makes of what the getter hands out
          RepObs o = projReport(rep, NAME, 0);
          res(GETREPORT, o.status, o.verdict, o.has, o.value);
          th.end(false);
        }
      });
  }
  w.join();
  w.resetLine = reset("ck", w.nthreads, ck, a, b);
}

static void stampLoop(Work & w, vh::Rng & r, const std::function<long long(Duration)> & call)
{
  long long now = 0;
  for (long long k = 0; k < w.ops; ++k) {
    int ph = (int)((k / 40) % 4);
    long long dt = ph == 0 ? 100 : ph == 1 ? r.range(50, 150) : ph == 2 ? r.range(1, 20) : r.range(100, 1500);
    now += dt;
    w.lastStamp = now;
    inv(STAMP, now); long long ret = call(durationFromMilliSecond(now)); res(STAMP, ret); ++w.progress;
  }
  w.stop = true;
}

static void runRM(Work & w)
{
  static RateMonitoring * rm = nullptr;
  delete rm;
  rm = new RateMonitoring(10.0);                    // W = 20
  footprint(*rm);
  w.bufs.reserve(16);
  const double WT = 20.0 * 1000;
  w.spawn([&](vh::Rng & r) {
      stampLoop(w, r, [&](Duration d) {
        double rate = rm->update(d); bool ok = true;
        return rate == 0 ? 0LL : vh::proj(WT / rate, ok, 1e-9);
      });
    });
  for (int i = 0; i < std::max(1, w.readers); ++i) {
    w.spawn([&](vh::Rng & r) {
        Thinner th(w.ops / 8);
        for (long long mine = 0; !w.stop;) {if (!w.pace(mine)) {continue;}
          long long at = w.lastStamp + r.pick(std::vector<long long>{0, 100, 499, 500, 501, 900, 3000});
          th.begin(); inv(HB, at); bool to = rm->timeout(durationFromMilliSecond(at)); res(HB, to); th.end(to);
        }
      });
  }
  w.join();
  w.resetLine = reset("rm", w.nthreads, "eq", 80, 0);
}

template<class C>
static void runRC(Work & w, const std::string & ck)
{
  static C * rc = nullptr;
  delete rc;
  rc = new C(NAME, 10.0, 1.0);                      // 10 Hz +- 1 -> rate8 = 80, eps8 = 8, W = 20
  footprint(*rc);
  w.bufs.reserve(16);
  w.spawn([&](vh::Rng & r) {
      stampLoop(w, r, [&](Duration d) {return (long long)(int)rc->evaluate(d);});
    });
  w.spawn([&](vh::Rng & r) {
      Thinner th(w.ops / 8);
      for (long long mine = 0; !w.stop;) {if (!w.pace(mine)) {continue;}
        long long at = w.lastStamp + r.pick(std::vector<long long>{0, 100, 499, 500, 501, 900, 3000});
        th.begin(); inv(HB, at); bool ok = rc->heartBeatCallback(durationFromMilliSecond(at)); res(HB, !ok); th.end(!ok);
      }
    });
  for (int i = 0; i < w.readers; ++i) {
    w.spawn([&](vh::Rng &) {
        Thinner th(w.ops / 8);
        for (long long mine = 0; !w.stop;) {if (!w.pace(mine)) {continue;}
          th.begin();
          inv(GETREPORT);
          DiagnosticReport rep = rc->getReport();
          RepObs o = projReport(rep, NAME + "_rate", 20.0 * 1000);
          res(GETREPORT, o.status, o.verdict, o.has, o.value);
          th.end(false);
        }
      });
  }
  w.join();
  w.resetLine = reset("rc", w.nthreads, ck, 80, 8);
}

static void dump(Work & w, const char * path)
{
  std::vector<Rec> all;
  for (auto & b : w.bufs) {all.insert(all.end(), b.begin(), b.end());}
  std::sort(all.begin(), all.end(), [](const Rec & x, const Rec & y) {return x.seq < y.seq;});
  FILE * f = std::fopen(path, "a");
  if (!f) {std::perror(path); std::exit(3);}
  std::fputs(w.resetLine.c_str(), f);
  // calls still in flight when the writer finished are complete (threads were joined)
  // A state-preserving call that stayed open while more than 200 state-changing calls were invoked (its thread was descheduled) is
  // left out, like the thinned ones: the set of states it may have observed would be that large.
  {
    std::vector<long long> openAt(w.nthreads, -1), mutAtInv(w.nthreads, 0);
    std::vector<char> drop(all.size(), 0);
    long long mutators = 0;
    auto changes = [](int m) {return m == STORE || m == CONSUME || m == UPDATE || m == EVALUATE || m == TIMEOUT || m == STAMP || m == HB || m == RESET;};
    for (size_t i = 0; i < all.size(); ++i) {
      const Rec & r = all[i];
      if (r.type == 0) {
        if (changes(r.m)) {++mutators;} else {openAt[r.t] = (long long)i; mutAtInv[r.t] = mutators;}
      } else if (r.type == 3 && openAt[r.t] >= 0) {
        if (mutators - mutAtInv[r.t] > 200) {
          for (size_t j = (size_t)openAt[r.t]; j <= i; ++j) {if (all[j].t == r.t) {drop[j] = 1;}}
        }
        openAt[r.t] = -1;
      }
    }
    std::vector<Rec> kept;
    for (size_t i = 0; i < all.size(); ++i) {if (!drop[i]) {kept.push_back(all[i]);}}
    all.swap(kept);
  }
  for (auto & r : all) {
    if (r.type == 0) {std::fprintf(f, "{\"e\":\"inv\",\"t\":%d,\"m\":\"%s\",\"arg\":%lld,\"vb\":[%lld,%lld,%lld]}\n", r.t, MN[r.m], r.a, r.b, r.c, r.d);}
    else if (r.type == 1) {std::fprintf(f, "{\"e\":\"lock\",\"t\":%d,\"mx\":%lld}\n", r.t, r.a);}
    else if (r.type == 2) {std::fprintf(f, "{\"e\":\"unlock\",\"t\":%d,\"mx\":%lld}\n", r.t, r.a);}
    else {
      switch (r.m) {
        case LOAD: std::fprintf(f, "{\"e\":\"res\",\"t\":%d,\"m\":\"load\",\"ret\":%lld,\"torn\":%s}\n", r.t, r.a, r.b ? "true" : "false"); break;
        case GETAVG: std::fprintf(f, "{\"e\":\"res\",\"t\":%d,\"m\":\"getAverage\",\"ret\":%lld,\"nan\":%s,\"exact\":%s}\n", r.t, r.a,
            r.b ? "true" : "false", r.c ? "true" : "false"); break;
        case GETVAR: std::fprintf(f, "{\"e\":\"res\",\"t\":%d,\"m\":\"getVariance\",\"ret\":%lld,\"exact\":%s,\"vb\":[%lld,%lld,%lld]}\n", r.t, r.a,
            r.c ? "true" : "false", r.b, r.d, r.e); break;
        case GETREPORT: std::fprintf(f, "{\"e\":\"res\",\"t\":%d,\"m\":\"getReport\",\"status\":%lld,\"verdict\":\"%s\",\"has\":%s,\"value\":%lld}\n",
            r.t, r.a, VN[r.b], r.c ? "true" : "false", r.d); break;
        default: std::fprintf(f, "{\"e\":\"res\",\"t\":%d,\"m\":\"%s\",\"ret\":%lld}\n", r.t, MN[r.m], r.a);
      }
    }
  }
  std::fclose(f);
  std::printf("%zu\n", all.size() + 1);
}

int main(int argc, char ** argv)
{
  if (argc != 6) {std::fprintf(stderr, "usage: stress_concurrent kind readers ops seed out\n"); return 3;}
  Work w;
  w.kind = argv[1]; w.readers = std::atoi(argv[2]); w.ops = std::atoll(argv[3]); w.seed = std::strtoull(argv[4], nullptr, 10);
  const std::string & k = w.kind;
  if (k == "sv") {runSV(w);} else if (k == "svw") {runSVW(w);} else if (k == "sov") {runSOV(w);} else if (k == "avg") {runStats<OnlineAverage>(w, false);}
  else if (k == "var") {runStats<OnlineVariance>(w, true);}
  else if (k == "ckeq") {runCheckup<CheckupEqualTo<double>>(w, "eq", true);}
  else if (k == "ckgt") {runCheckup<CheckupGreaterThan<double>>(w, "gt", true);}
  else if (k == "ckpair") {runCheckup<CheckupGreaterThan<double>>(w, "gt", true, true);}
  else if (k == "cklt") {runCheckup<CheckupLowerThan<double>>(w, "lt", true);}
  else if (k == "rel") {runCheckup<CheckupReliability>(w, "rel", false);}
  else if (k == "rm") {runRM(w);} else if (k == "rceq") {runRC<CheckupEqualToRate>(w, "eq");}
  else if (k == "rcgt") {runRC<CheckupGreaterThanRate>(w, "gt");} else {std::fprintf(stderr, "unknown kind\n"); return 3;}
#ifdef VERIF_TRACE
  if (std::string(argv[5]) != "-") {dump(w, argv[5]);}
#endif
  return 0;
}
