// Conformance driver for ENUConverter (C02; spec/EnuFrame.tla).
//   drive_enu random <seed> <nexec> <out.ndjson>
// Anchors have lattice latitude / longitude (cos, sin rational): quarter turns and Pythagorean angles.
#include "vh.hpp"
#include <memory>
#include "romea_core_common/geodesy/ENUConverter.hpp"
#include "romea_core_common/geodesy/WGS84Coordinates.hpp"

using namespace romea::core;
using IV = std::vector<long long>;
static const std::vector<IV> LATS = {{1, 0, 1}, {4, 3, 5}, {4, -3, 5}, {3, 4, 5}, {3, -4, 5}, {24, 7, 25}, {24, -7, 25}, {7, 24, 25}, {7, -24, 25},
  {12, 5, 13}, {5, -12, 13}};
static const std::vector<IV> LONS = {{1, 0, 1}, {0, 1, 1}, {-1, 0, 1}, {0, -1, 1}, {3, 4, 5}, {-3, 4, 5}, {-4, -3, 5}, {4, -3, 5}, {-4, 3, 5},
  {7, 24, 25}, {-24, 7, 25}, {-7, -24, 25}, {24, -7, 25}, {5, 12, 13}, {-12, -5, 13}};

struct Frame {IV la, lo; long long h; bool negPi;};
static double ang(const IV & a, bool negPi = false)
{
  double v = std::atan2((double)a[1], (double)a[0]);
  return (negPi && a[0] == -1 && a[1] == 0) ? -v : v;              // both ends of the antimeridian
}
static GeodeticCoordinates geo(const Frame & f, double dh = 0) {return makeGeodeticCoordinates(ang(f.la), ang(f.lo, f.negPi), (double)f.h + dh);}
static Frame randomFrame(vh::Rng & r)
{
  return Frame{r.pick(LATS), r.pick(LONS), r.pick(IV{-500, 0, 123, 9000}), r.coin()};
}
static IV mm(const Eigen::Vector3d & v)
{
  IV o; for (int i = 0; i < 3; ++i) {double x = v[i] * 1000.0; o.push_back(std::fabs(x) < 2e9 ? (long long)std::llround(x) : 2000000000LL);}
  return o;
}
static IV localPoint(vh::Rng & r)
{
  int st = (int)r.range(0, 3);
  long long m = st == 0 ? 10 : st == 1 ? 1000 : 100000;
  return IV{r.range(-m, m), r.range(-m, m), r.range(-m / 10, m / 10)};
}

static void probe(vh::Rng & r, ENUConverter & c, const Frame & f, vh::Out & out)
{
  // exact rotation columns times Den
  long long dla = f.la[2], dlo = f.lo[2], den = dla * dlo;
  IV E{-f.lo[1] * dla, f.lo[0] * dla, 0}, N{-f.la[1] * f.lo[0], -f.la[1] * f.lo[1], f.la[0] * dlo}, U{f.la[0] * f.lo[0], f.la[0] * f.lo[1], f.la[1] * dlo};
  Eigen::Vector3d t = c.toECEF(Eigen::Vector3d::Zero());
  int n = (int)r.range(1, 4);
  for (int k = 0; k < n; ++k) {
    int what = (int)r.range(0, 5);
    IV p = localPoint(r);
    Eigen::Vector3d pv((double)p[0], (double)p[1], (double)p[2]);
    if (what == 0) {
      Eigen::Vector3d d = (r.coin() ? c.toECEF(pv) : c.toECEF(pv[0], pv[1], pv[2])) - t;
      IV dq; bool ok = true;
      for (int i = 0; i < 3; ++i) {double x = d[i] * den, rx = std::nearbyint(x); if (std::fabs(x - rx) > 1e-3 * den) {ok = false;} dq.push_back((long long)rx);}
      out.put(vh::Ev("toEcef").vec("p", p).vec("dq", dq).b("exact", ok));
    } else if (what == 1) {
      Eigen::Vector3d v = t;
      for (int i = 0; i < 3; ++i) {v[i] += ((double)E[i] * p[0] + (double)N[i] * p[1] + (double)U[i] * p[2]) / den;}
      out.put(vh::Ev("toEnuEcef").vec("p", p).vec("mm", mm(c.toENU(v))));
    } else if (what == 2) {
      long long z = r.range(-10000, 10000);
      GeodeticCoordinates g = c.toWGS84(Eigen::Vector3d(0, 0, (double)z));
      double dlat = std::fabs(g.latitude - ang(f.la));
      double dlon = std::fabs(std::remainder(g.longitude - ang(f.lo), 2 * M_PI));
      out.put(vh::Ev("toGeo").i("z", z).b("latOk", dlat <= 1e-9).b("lonOk", dlon <= 1e-9)
        .i("hmm", std::isfinite(g.altitude) && std::fabs(g.altitude) < 1e6 ? std::llround(g.altitude * 1000) : 2000000000LL));
    } else if (what == 3) {
      GeodeticCoordinates g = r.coin() ? c.toWGS84(pv) : c.toWGS84(pv[0], pv[1], pv[2]);
      out.put(vh::Ev("roundGeo").vec("p", p).vec("mm", mm(c.toENU(g))));
    } else if (what == 4) {
      long long dh = r.range(-500, 9000);
      Frame g = f; g.h = f.h + dh; g.negPi = r.coin();
      Eigen::Vector3d v = c.toENU(geo(g));
      out.put(vh::Ev("toEnuGeo").vec("la", f.la).vec("lo", f.lo).i("h", g.h).vec("mm", mm(v)).b("anch", c.isAnchored()));
      // the latitude / longitude-only overload takes the anchor's altitude
      Eigen::Vector3d v2 = c.toENU(makeWGS84Coordinates(ang(f.la), ang(f.lo, g.negPi)));
      out.put(vh::Ev("toEnuGeo").vec("la", f.la).vec("lo", f.lo).i("h", f.h).vec("mm", mm(v2)).b("anch", c.isAnchored()));
    } else {
      IV tq; bool ok = true;
      for (int i = 0; i < 3; ++i) {double x = t[i] * dlo, rx = std::nearbyint(x); if (std::fabs(x - rx) > 1e-3 * dlo) {ok = false;} tq.push_back((long long)rx);}
      out.put(vh::Ev("origin").vec("tq", tq).b("exact", ok));
    }
  }
}

// a converter anchored at a GENERAL latitude / longitude, possibly re-anchored from somewhere else first (history):
// the relations of C02 measured as residuals in units of 0.01 mm
static void generic(vh::Rng & r, vh::Out & out)
{
  auto u = [&]() {return (double)r.range(-1000000, 1000000) / 1000000.0;};
  double lat = u() * 85.0 * M_PI / 180.0, lon = u() * M_PI, h = -500 + (u() + 1) * 4750;
  if (r.coin(1, 8)) {lon = r.coin() ? M_PI : -M_PI;}
  ENUConverter c;
  int hist = (int)r.range(0, 3);
  if (hist == 1) {c.setAnchor(makeGeodeticCoordinates(u() * 1.4, u() * 3.1, 100)); c.toENU(makeGeodeticCoordinates(0.1, 0.2, 3));}
  if (hist == 2) {c.setAnchor(makeGeodeticCoordinates(u() * 1.4, u() * 3.1, 100)); c.toENU(Eigen::Vector3d(4e6, 1e6, 4e6)); c.reset();}
  GeodeticCoordinates a = makeGeodeticCoordinates(lat, lon, h);
  if (hist == 2 || (hist == 0 && r.coin())) {c.toENU(a);} else {c.setAnchor(a);}          // self-anchoring or explicit
  auto units = [](double metres) {double v = std::fabs(metres) * 1e5; return v < 2e9 ? (long long)std::llround(v) : 2000000000LL;};
  Eigen::Vector3d o = c.toENU(a);
  double hh = (double)r.range(1, 9000);
  Eigen::Vector3d up = c.toENU(makeGeodeticCoordinates(lat, lon, h + hh)) - Eigen::Vector3d(0, 0, hh);
  // orientation: a point 1e-5 rad further east (north) has a positive first (second) coordinate, the other one comparatively small
  double de = lon + 1e-5 <= M_PI ? 1e-5 : -1e-5;                                    // stay inside [-pi, pi]
  Eigen::Vector3d e = c.toENU(makeGeodeticCoordinates(lat, lon + de, h)), n = c.toENU(makeGeodeticCoordinates(lat + 1e-5, lon, h));
  if (de < 0) {e = -e;}
  bool eastOK = e[0] > 1 && std::fabs(e[1]) < 0.01 * e[0] + 1e-3, northOK = n[1] > 30 && std::fabs(n[0]) < 0.01 * n[1] + 1e-3;
  // isometry and inverses on random local points within 100 km / 10 km
  double iso = 0, invE = 0, invG = 0;
  for (int k = 0; k < 4; ++k) {
    Eigen::Vector3d p(u() * 1e5, u() * 1e5, u() * 1e4), q(u() * 1e5, u() * 1e5, u() * 1e4);
    iso = std::max(iso, std::fabs((c.toECEF(p) - c.toECEF(q)).norm() - (p - q).norm()));
    invE = std::max(invE, (c.toENU(c.toECEF(p)) - p).norm());
    invG = std::max(invG, (c.toENU(c.toWGS84(p)) - p).norm());
  }
  const Eigen::Affine3d & T = c.getEnuToEcefTransform();
  Eigen::Matrix3d R = T.linear();
  bool proper = (R * R.transpose() - Eigen::Matrix3d::Identity()).norm() < 1e-9 && std::fabs(R.determinant() - 1) < 1e-9;
  {Eigen::Vector3d p(u() * 1e5, u() * 1e5, u() * 1e4); if ((T * p - c.toECEF(p[0], p[1], p[2])).norm() > 1e-6) {proper = false;}}   // same transform, both overloads
  out.put(vh::Ev("generic").i("hist", hist).i("originRes", units(o.norm())).i("upRes", units(up.norm())).i("isoRes", units(iso))
    .i("invEcefRes", units(invE)).i("invGeoRes", units(invG)).b("eastOK", eastOK).b("northOK", northOK).b("properOK", proper)
    .i("latMicroDeg", (long long)std::llround(lat * 180 / M_PI * 1e6)).i("lonMicroDeg", (long long)std::llround(lon * 180 / M_PI * 1e6)));
}

static void exec(vh::Rng & r, vh::Out & out)
{
  if (r.coin(1, 3)) {out.put(vh::Ev("Reset").b("anchor", false).b("anch", false)); generic(r, out); return;}
  std::unique_ptr<ENUConverter> c;
  Frame f{IV{1, 0, 1}, IV{1, 0, 1}, 0, false};          // what a fresh converter reports as its anchor: latitude 0, longitude 0, height 0
  bool anchored = false;
  if (r.coin()) {
    f = randomFrame(r);
    c.reset(new ENUConverter(geo(f)));
    anchored = true;
    out.put(vh::Ev("Reset").b("anchor", true).vec("la", f.la).vec("lo", f.lo).i("h", f.h).b("anch", c->isAnchored()));
  } else {
    c.reset(new ENUConverter());
    out.put(vh::Ev("Reset").b("anchor", false).b("anch", c->isAnchored()));
  }
  int len = (int)r.range(1, 8);
  for (int s = 0; s < len; ++s) {
    int what = (int)r.range(0, 5);
    if (r.coin(1, 6)) {
      // continue on a copy, in whatever state the converter is (fresh, anchored, reset): copy construction, copy assignment onto a
      // converter with another history, or relocation by a growing vector
      int how = (int)r.range(0, 2);
      if (how == 0) {std::unique_ptr<ENUConverter> cp(new ENUConverter(*c)); c = std::move(cp);} else if (how == 1) {
        std::unique_ptr<ENUConverter> cp(r.coin() ? new ENUConverter() : new ENUConverter(geo(randomFrame(r))));
        if (r.coin(1, 3)) {cp->reset();}
        *cp = *c; c = std::move(cp);
      } else {
        std::vector<ENUConverter> v; v.push_back(*c);
        for (int k = 0; k < 5; ++k) {v.push_back(ENUConverter());}
        std::unique_ptr<ENUConverter> cp(new ENUConverter(v.front())); c = std::move(cp);
      }
      out.put(vh::Ev("copy").i("how", how).b("anch", c->isAnchored()));
    }
    if (what == 0 && c->getAnchor().altitude == (double)f.h && c->getAnchor().latitude == ang(f.la) &&
      c->getAnchor().longitude == ang(f.lo, f.negPi) && r.coin(1, 4)) {
      // the converter's own anchor handed back to it by reference (argument aliasing): re-anchoring at the same place, also after a
      // reset (the last anchor is still what getAnchor() reports) and through the self-anchoring conversion
      if (!anchored && r.coin()) {
        Eigen::Vector3d v = c->toENU(c->getAnchor()); anchored = true;
        out.put(vh::Ev("toEnuGeo").vec("la", f.la).vec("lo", f.lo).i("h", f.h).vec("mm", mm(v)).b("anch", c->isAnchored()));
      } else {
        c->setAnchor(c->getAnchor()); anchored = true;
        out.put(vh::Ev("setAnchor").vec("la", f.la).vec("lo", f.lo).i("h", f.h).b("anch", c->isAnchored()));
      }
      probe(r, *c, f, out);
    } else if (what == 0) {
      Frame prev = f; bool was = anchored;
      f = randomFrame(r);
      if (was && r.coin(1, 3)) {f = prev; f.h = prev.h + r.pick(IV{-150, 1115, 9000 - prev.h});}      // same latitude / longitude, another height
      c->setAnchor(geo(f)); anchored = true;
      out.put(vh::Ev("setAnchor").vec("la", f.la).vec("lo", f.lo).i("h", f.h).b("anch", c->isAnchored()));
    } else if (what == 1) {
      c->reset(); anchored = false;
      out.put(vh::Ev("reset").b("anch", c->isAnchored()));
    } else if (what == 2 && !anchored) {
      // an un-anchored converter anchors itself on the first geodetic point it converts
      f = randomFrame(r);
      if (r.coin(1, 3)) {
        // the latitude / longitude overload: whatever altitude it assumes, the point converted first is the origin; the altitude
        // of the anchor it chose is read back (an observation) and must be a finite height
        Eigen::Vector3d v = c->toENU(makeWGS84Coordinates(ang(f.la), ang(f.lo, f.negPi))); anchored = c->isAnchored();
        double alt = c->getAnchor().altitude;
        f.h = std::isfinite(alt) && std::fabs(alt) < 1e6 ? (long long)std::llround(alt) : 123456789;
        bool intAlt = std::isfinite(alt) && std::fabs(alt - (double)f.h) < 1e-9;
        out.put(vh::Ev("toEnuGeo").vec("la", f.la).vec("lo", f.lo).i("h", intAlt ? f.h : 123456789).vec("mm", mm(v)).b("anch", c->isAnchored()));
        if (!intAlt || !anchored) {return;}
        continue;
      }
      Eigen::Vector3d v = c->toENU(geo(f)); anchored = true;
      out.put(vh::Ev("toEnuGeo").vec("la", f.la).vec("lo", f.lo).i("h", f.h).vec("mm", mm(v)).b("anch", c->isAnchored()));
    } else if (anchored) {
      if (r.coin(1, 5)) {std::unique_ptr<ENUConverter> cp(new ENUConverter(*c)); c = std::move(cp);}          // continue on a copy of the converter
      probe(r, *c, f, out);
    }
  }
}

int main(int argc, char ** argv)
{
  if (argc != 5 || std::string(argv[1]) != "random") {std::fprintf(stderr, "usage: drive_enu random seed nexec out\n"); return 3;}
  vh::Rng r(std::strtoull(argv[2], nullptr, 10));
  int n = std::atoi(argv[3]);
  vh::Out out(argv[4]);
  for (int k = 0; k < n; ++k) {exec(r, out);}
  std::printf("%lld\n", out.lines);
  return 0;
}
