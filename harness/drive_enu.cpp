// Conformance driver for ENUConverter (C02; spec/EnuFrame.tla).
//   drive_enu random <seed> <nexec> <out.ndjson>
// Anchors have lattice latitude / longitude (cos, sin rational): quarter turns and Pythagorean angles.
#include "vh.hpp"
#include <memory>
#include "romea_core_common/geodesy/ENUConverter.hpp"

using namespace romea::core;
using IV = std::vector<long long>;
static const std::vector<IV> LATS = {{1, 0, 1}, {4, 3, 5}, {4, -3, 5}, {3, 4, 5}, {3, -4, 5}, {24, 7, 25}, {24, -7, 25}, {7, 24, 25}, {7, -24, 25},
  {12, 5, 13}, {5, -12, 13}};
static const std::vector<IV> LONS = {{1, 0, 1}, {0, 1, 1}, {-1, 0, 1}, {0, -1, 1}, {3, 4, 5}, {-3, 4, 5}, {-4, -3, 5}, {4, -3, 5}, {-4, 3, 5},
  {7, 24, 25}, {-24, 7, 25}, {-7, -24, 25}, {24, -7, 25}, {5, 12, 13}, {-12, -5, 13}};

struct Frame {IV la, lo; long long h; bool negPi;};
static double ang(const IV & a, bool negPi = false)
{
  double v = std::atan2((double)a[1], (double)a[0]);
  return (negPi && a[0] == -1 && a[1] == 0) ? -v : v;              // both ends of the antimeridian
}
static GeodeticCoordinates geo(const Frame & f, double dh = 0) {return makeGeodeticCoordinates(ang(f.la), ang(f.lo, f.negPi), (double)f.h + dh);}
static Frame randomFrame(vh::Rng & r)
{
  return Frame{r.pick(LATS), r.pick(LONS), r.pick(IV{-500, 0, 123, 9000}), r.coin()};
}
static IV mm(const Eigen::Vector3d & v)
{
  IV o; for (int i = 0; i < 3; ++i) {double x = v[i] * 1000.0; o.push_back(std::fabs(x) < 2e9 ? (long long)std::llround(x) : 2000000000LL);}
  return o;
}
static IV localPoint(vh::Rng & r)
{
  int st = (int)r.range(0, 3);
  long long m = st == 0 ? 10 : st == 1 ? 1000 : 100000;
  return IV{r.range(-m, m), r.range(-m, m), r.range(-m / 10, m / 10)};
}

static void probe(vh::Rng & r, ENUConverter & c, const Frame & f, vh::Out & out)
{
  // exact rotation columns times Den
  long long dla = f.la[2], dlo = f.lo[2], den = dla * dlo;
  IV E{-f.lo[1] * dla, f.lo[0] * dla, 0}, N{-f.la[1] * f.lo[0], -f.la[1] * f.lo[1], f.la[0] * dlo}, U{f.la[0] * f.lo[0], f.la[0] * f.lo[1], f.la[1] * dlo};
  Eigen::Vector3d t = c.toECEF(Eigen::Vector3d::Zero());
  int n = (int)r.range(1, 4);
  for (int k = 0; k < n; ++k) {
    int what = (int)r.range(0, 5);
    IV p = localPoint(r);
    Eigen::Vector3d pv((double)p[0], (double)p[1], (double)p[2]);
    if (what == 0) {
      Eigen::Vector3d d = (r.coin() ? c.toECEF(pv) : c.toECEF(pv[0], pv[1], pv[2])) - t;
      IV dq; bool ok = true;
      for (int i = 0; i < 3; ++i) {double x = d[i] * den, rx = std::nearbyint(x); if (std::fabs(x - rx) > 1e-3 * den) {ok = false;} dq.push_back((long long)rx);}
      out.put(vh::Ev("toEcef").vec("p", p).vec("dq", dq).b("exact", ok));
    } else if (what == 1) {
      Eigen::Vector3d v = t;
      for (int i = 0; i < 3; ++i) {v[i] += ((double)E[i] * p[0] + (double)N[i] * p[1] + (double)U[i] * p[2]) / den;}
      out.put(vh::Ev("toEnuEcef").vec("p", p).vec("mm", mm(c.toENU(v))));
    } else if (what == 2) {
      long long z = r.range(-10000, 10000);
      GeodeticCoordinates g = c.toWGS84(Eigen::Vector3d(0, 0, (double)z));
      double dlat = std::fabs(g.latitude - ang(f.la));
      double dlon = std::fabs(std::remainder(g.longitude - ang(f.lo), 2 * M_PI));
      out.put(vh::Ev("toGeo").i("z", z).b("latOk", dlat <= 1e-9).b("lonOk", dlon <= 1e-9)
        .i("hmm", std::isfinite(g.altitude) && std::fabs(g.altitude) < 1e6 ? std::llround(g.altitude * 1000) : 2000000000LL));
    } else if (what == 3) {
      GeodeticCoordinates g = r.coin() ? c.toWGS84(pv) : c.toWGS84(pv[0], pv[1], pv[2]);
      out.put(vh::Ev("roundGeo").vec("p", p).vec("mm", mm(c.toENU(g))));
    } else if (what == 4) {
      long long dh = r.range(-500, 9000);
      Frame g = f; g.h = f.h + dh; g.negPi = r.coin();
      Eigen::Vector3d v = c.toENU(geo(g));
      out.put(vh::Ev("toEnuGeo").vec("la", f.la).vec("lo", f.lo).i("h", g.h).vec("mm", mm(v)).b("anch", c.isAnchored()));
    } else {
      IV tq; bool ok = true;
      for (int i = 0; i < 3; ++i) {double x = t[i] * dlo, rx = std::nearbyint(x); if (std::fabs(x - rx) > 1e-3 * dlo) {ok = false;} tq.push_back((long long)rx);}
      out.put(vh::Ev("origin").vec("tq", tq).b("exact", ok));
    }
  }
}

static void exec(vh::Rng & r, vh::Out & out)
{
  std::unique_ptr<ENUConverter> c;
  Frame f{};
  bool anchored = false;
  if (r.coin()) {
    f = randomFrame(r);
    c.reset(new ENUConverter(geo(f)));
    anchored = true;
    out.put(vh::Ev("Reset").b("anchor", true).vec("la", f.la).vec("lo", f.lo).i("h", f.h).b("anch", c->isAnchored()));
  } else {
    c.reset(new ENUConverter());
    out.put(vh::Ev("Reset").b("anchor", false).b("anch", c->isAnchored()));
  }
  int len = (int)r.range(1, 8);
  for (int s = 0; s < len; ++s) {
    int what = (int)r.range(0, 5);
    if (what == 0) {
      f = randomFrame(r); c->setAnchor(geo(f)); anchored = true;
      out.put(vh::Ev("setAnchor").vec("la", f.la).vec("lo", f.lo).i("h", f.h).b("anch", c->isAnchored()));
    } else if (what == 1) {
      c->reset(); anchored = false;
      out.put(vh::Ev("reset").b("anch", c->isAnchored()));
    } else if (what == 2 && !anchored) {
      // an un-anchored converter anchors itself on the first geodetic point it converts
      f = randomFrame(r);
      Eigen::Vector3d v = c->toENU(geo(f)); anchored = true;
      out.put(vh::Ev("toEnuGeo").vec("la", f.la).vec("lo", f.lo).i("h", f.h).vec("mm", mm(v)).b("anch", c->isAnchored()));
    } else if (anchored) {
      probe(r, *c, f, out);
    }
  }
}

int main(int argc, char ** argv)
{
  if (argc != 5 || std::string(argv[1]) != "random") {std::fprintf(stderr, "usage: drive_enu random seed nexec out\n"); return 3;}
  vh::Rng r(std::strtoull(argv[2], nullptr, 10));
  int n = std::atoi(argv[3]);
  vh::Out out(argv[4]);
  for (int k = 0; k < n; ++k) {exec(r, out);}
  std::printf("%lld\n", out.lines);
  return 0;
}
