// Driver for the registration pipelines above the estimators of C04 / C05 (specification growth, spec/RigidFit.tla through
// Trace_RigidFit.tla):  RANSAC over RansacRigidTransformationModel with wrong correspondences mixed in, and
// FindRigidTransformationByICP from a slightly displaced guess.  Both are deterministic (default-seeded generator).
//   drive_pipeline random <seed> <n> <out.ndjson>
// Events are the "svd" events of drive_rigid (the estimate is the lattice motion), plus one "pipeline" summary.
#include "vh.hpp"
#include <Eigen/Geometry>
#include <set>
#include "motions.hpp"
#include "romea_core_common/regression/ransac/Ransac.hpp"
#include "romea_core_common/transform/estimation/RansacRigidTransformationModel.hpp"
#include "romea_core_common/transform/estimation/FindRigidTransformationByICP.hpp"

using namespace romea::core;

template<class PT, size_t DIM> static PT mk(const IV & p)
{
  PT x; for (size_t a = 0; a < DIM; ++a) {x[a] = (typename PT::Scalar)p[a];}
  if ((size_t)PT::RowsAtCompileTime > DIM) {x[DIM] = 1;}
  return x;
}

static long long g_ransacTried = 0, g_ransacFailed = 0, g_icpTried = 0, g_icpFailed = 0;

// distinct lattice points (multiples of den * step), not all collinear (3D: not all coplanar either)
template<size_t DIM> static std::vector<IV> cloud(vh::Rng & r, int n, long long den, long long step)
{
  std::set<IV> seen; std::vector<IV> pts;
  while ((int)pts.size() < n) {
    IV p; for (size_t a = 0; a < DIM; ++a) {p.push_back(den * step * r.range(-6, 6));}
    if (seen.insert(p).second) {pts.push_back(p);}
  }
  return pts;
}

template<class M> static void logMotion(vh::Out & out, const char * what, size_t DIM, int type, const IM & Q, long long den, const IV & t, int n,
  const M & H, double tol, bool ret)
{
  bool ok = true;
  IM lin(DIM, IV(DIM)); IV ht;
  double mag = 1; for (auto v : t) {mag = std::max(mag, std::fabs((double)v));}
  for (size_t i = 0; i < DIM; ++i) {
    for (size_t j = 0; j < DIM; ++j) {double x = (double)H(i, j) * den, rx = std::nearbyint(x); if (!(std::fabs(x - rx) <= tol * den)) {ok = false;} lin[i][j] = (long long)rx;}
    double x = (double)H(i, DIM), rx = std::nearbyint(x);
    if (!(std::fabs(x - rx) <= tol * (mag + 100.0 * den * DIM))) {ok = false;}
    ht.push_back(std::fabs(rx) < 2e9 ? (long long)rx : 0);
  }
  for (size_t j = 0; j < DIM; ++j) {if (std::fabs((double)H(DIM, j)) > tol) {ok = false;}}
  if (std::fabs((double)H(DIM, DIM) - 1) > tol) {ok = false;}
  vh::Ev e("svd");
  e.str("via", what).i("dim", (long long)DIM).i("type", type).mat("Q", Q).i("den", den).vec("t", t).i("n", n).i("how", 0).i("corr", 0).b("logged", false);
  e.mat("Hlin", lin).vec("Ht", ht).b("ex", ok && ret);
  out.put(e);
}

template<class PT, size_t DIM>
static void ransacfit(vh::Rng & r, int type, vh::Out & out)
{
  static std::vector<std::pair<IM, long long>> ms;
  if (ms.empty() || ms[0].first.size() != DIM) {ms.clear(); motions(DIM, ms);}
  auto & m = r.pick(ms);
  const IM & Q = m.first; long long den = m.second;
  IV t; for (size_t a = 0; a < DIM; ++a) {t.push_back(r.range(-50, 50));}
  int n = (int)r.range(12, 60);
  std::vector<IV> src = cloud<DIM>(r, n, den, 1), tgt;
  for (auto & p : src) {IV g; for (size_t a = 0; a < DIM; ++a) {long long s = 0; for (size_t b = 0; b < DIM; ++b) {s += Q[a][b] * p[b];} g.push_back(s / den + t[a]);} tgt.push_back(g);}
  PointSet<PT> ps(n), pt(n);
  for (int i = 0; i < n; ++i) {ps[i] = mk<PT, DIM>(src[i]); pt[i] = mk<PT, DIM>(tgt[i]);}
  // correspondences: the true ones, a fraction of them replaced by wrong targets (distinct lattice points are >= 1 apart, the
  // inlier radius is 0.3: a wrong correspondence is never an inlier of the true motion)
  int pct = (int)r.pick(std::vector<int>{0, 0, 10, 20, 30});
  std::vector<Correspondence> cs;
  int wrong = 0;
  for (int i = 0; i < n; ++i) {
    size_t j = (size_t)i;
    if ((int)r.range(0, 99) < pct) {j = (size_t)r.range(0, n - 1); if ((int)j == i) {j = (size_t)((i + 1) % n);} ++wrong;}
    cs.push_back(Correspondence((size_t)i, j));
  }
  RansacRigidTransformationModel<PT> model;
  model.loadPointSets(&ps, &pt);
  model.loadCorrespondences(&cs, (size_t)n);
  model.loadTargetNormalSet(nullptr);
  Ransac ransac(&model, 0.1);
  bool ret = ransac.estimateModel();
  ++g_ransacTried;
  // a randomised estimator may fail to find a consensus when wrong correspondences are present; it may never return a wrong one
  if (!ret && wrong > 0) {++g_ransacFailed; return;}
  logMotion(out, "ransac", DIM, type, Q, den, t, n, model.getTransformation(), sizeof(typename PT::Scalar) == 4 ? 2e-3 : 1e-8, ret);
}

template<class PT, size_t DIM>
static void icpfit(vh::Rng & r, int type, vh::Out & out)
{
  using S = typename PT::Scalar;
  using T = typename FindRigidTransformationByICP<PT>::TransformationMatrixType;
  static std::vector<std::pair<IM, long long>> ms;
  if (ms.empty() || ms[0].first.size() != DIM) {ms.clear(); motions(DIM, ms);}
  auto & m = r.pick(ms);
  const IM & Q = m.first; long long den = m.second;
  IV t; for (size_t a = 0; a < DIM; ++a) {t.push_back(r.range(-50, 50));}
  int n = (int)r.range(20, 80);
  std::vector<IV> src = cloud<DIM>(r, n, den, 2), tgt;            // neighbours are >= 2 apart
  for (auto & p : src) {IV g; for (size_t a = 0; a < DIM; ++a) {long long s = 0; for (size_t b = 0; b < DIM; ++b) {s += Q[a][b] * p[b];} g.push_back(s / den + t[a]);} tgt.push_back(g);}
  PointSet<PT> ps(n), pt(n);
  std::vector<int> tpos(n); for (int i = 0; i < n; ++i) {tpos[i] = i;}
  for (int i = n - 1; i > 0; --i) {std::swap(tpos[i], tpos[(size_t)r.range(0, i)]);}       // target storage order is unrelated to the source's
  for (int i = 0; i < n; ++i) {ps[i] = mk<PT, DIM>(src[i]); pt[tpos[i]] = mk<PT, DIM>(tgt[i]);}
  // the guess: the true motion followed by a displacement of at most 0.25 per axis (a quarter of the position deviation budget)
  T M = T::Identity();
  for (size_t i = 0; i < DIM; ++i) {for (size_t j = 0; j < DIM; ++j) {M(i, j) = (S)((double)Q[i][j] / (double)den);} M(i, DIM) = (S)t[i];}
  T guess = M;
  for (size_t i = 0; i < DIM; ++i) {guess(i, DIM) += (S)(r.range(-4, 4) / 16.0);}
  FindRigidTransformationByICP<PT> icp((S)0.5);
  bool ret = icp.find(ps, pt, guess, FindRigidTransformationByICP<PT>::EstimationMethod::SVD);
  ++g_icpTried;
  if (!ret) {++g_icpFailed;}
  T H = icp.getTransformation() * guess;
  logMotion(out, "icp", DIM, type, Q, den, t, n, H, sizeof(S) == 4 ? 2e-3 : 1e-7, ret);
}

int main(int argc, char ** argv)
{
  if (argc != 5 || std::string(argv[1]) != "random") {std::fprintf(stderr, "usage: drive_pipeline random seed n out\n"); return 3;}
  vh::Rng r(std::strtoull(argv[2], nullptr, 10));
  int n = std::atoi(argv[3]);
  vh::Out out(argv[4]);
  out.put(vh::Ev("Reset"));
  for (int k = 0; k < n; ++k) {
    if (k % 50 == 49) {out.put(vh::Ev("Reset"));}
    switch (k % 4) {
      case 0: ransacfit<Eigen::Vector2d, 2>(r, 1, out); break;
      case 1: ransacfit<Eigen::Vector3d, 3>(r, 3, out); break;
      case 2: icpfit<Eigen::Vector2d, 2>(r, 1, out); break;
      default: icpfit<Eigen::Vector3d, 3>(r, 3, out); break;
    }
  }
  std::printf("%lld ransac %lld failed %lld icp %lld failed %lld\n", out.lines, g_ransacTried, g_ransacFailed, g_icpTried, g_icpFailed);
  return 0;
}
