// Conformance driver for Interval, AxisAlignedBoundingBox, OrientedBoundingBox, min/max/mean of
// EigenContainers and PointSetPreconditioner (C20; spec/Boxes.tla).
//   drive_boxes random <seed> <n> <out.ndjson>
// Integer (half-integer) lattices: TLC sees doubled integer coordinates.
#include "vh.hpp"
#include <Eigen/Geometry>
#include <limits>
#include "romea_core_common/math/Interval.hpp"
#include "romea_core_common/containers/boundingbox/AxisAlignedBoundingBox.hpp"
#include "romea_core_common/containers/boundingbox/OrientedBoundingBox.hpp"
#include "romea_core_common/containers/Eigen/VectorOfEigenVector.hpp"
#include "romea_core_common/containers/Eigen/EigenContainers.hpp"
#include "romea_core_common/pointset/algorithms/PointSetPreconditioner.hpp"

using namespace romea::core;
using IV = std::vector<long long>;
using IM = std::vector<IV>;

template<class S> static double tolOf() {return sizeof(S) == 4 ? 1e-4 : 1e-9;}
template<class S> static long long pr(double x, bool & ok) {return vh::proj(x, ok, tolOf<S>());}

// proper rotations with integer entries over a common denominator
static void rotations(size_t dim, std::vector<std::pair<IM, long long>> & out)
{
  if (dim == 2) {
    long long cs[][3] = {{1, 0, 1}, {0, 1, 1}, {-1, 0, 1}, {0, -1, 1}, {3, 4, 5}, {4, 3, 5}, {-3, 4, 5}, {-4, -3, 5}, {4, -3, 5},
      {5, 12, 13}, {-12, 5, 13}, {7, 24, 25}, {24, -7, 25}};
    for (auto & t : cs) {out.push_back({IM{{t[0], -t[1]}, {t[1], t[0]}}, t[2]});}
    return;
  }
  // 24 proper signed permutations
  int perm[6][3] = {{0, 1, 2}, {0, 2, 1}, {1, 0, 2}, {1, 2, 0}, {2, 0, 1}, {2, 1, 0}};
  std::vector<IM> perms;
  for (auto & p : perm) {
    for (int s = 0; s < 8; ++s) {
      IM q(3, IV(3, 0));
      for (int r = 0; r < 3; ++r) {q[r][p[r]] = (s >> r) & 1 ? -1 : 1;}
      long long det = q[0][0] * (q[1][1] * q[2][2] - q[1][2] * q[2][1]) - q[0][1] * (q[1][0] * q[2][2] - q[1][2] * q[2][0]) +
        q[0][2] * (q[1][0] * q[2][1] - q[1][1] * q[2][0]);
      if (det == 1) {perms.push_back(q); out.push_back({q, 1});}
    }
  }
  // Pythagorean rotation about z, composed with every signed permutation on the left
  long long cs[][3] = {{3, 4, 5}, {-4, 3, 5}, {5, 12, 13}};
  for (auto & t : cs) {
    IM rz{{t[0], -t[1], 0}, {t[1], t[0], 0}, {0, 0, t[2]}};
    for (auto & p : perms) {
      IM q(3, IV(3, 0));
      for (int i = 0; i < 3; ++i) {for (int j = 0; j < 3; ++j) {for (int k = 0; k < 3; ++k) {q[i][j] += p[i][k] * rz[k][j];}}}
      out.push_back({q, t[2]});
    }
  }
}

template<class S, size_t DIM>
static void boxes(vh::Rng & r, vh::Out & out)
{
  using P = Eigen::Matrix<S, DIM, 1>;
  static std::vector<std::pair<IM, long long>> rots;
  if (rots.empty() || rots[0].first.size() != DIM) {rots.clear(); rotations(DIM, rots);}
  auto half = [](const IV & v2) {P p; for (size_t a = 0; a < DIM; ++a) {p[a] = (S)(v2[a] / 2.0);} return p;};
  // --- interval -> AABB -> interval, membership
  {
    IV l, u, p2;
    for (size_t a = 0; a < DIM; ++a) {long long x = r.range(-30, 30), w = r.coin(1, 5) ? 0 : r.range(0, 20); l.push_back(x); u.push_back(x + w);}
    for (size_t a = 0; a < DIM; ++a) {
      int st = (int)r.range(0, 4);
      p2.push_back(st == 0 ? 2 * l[a] : st == 1 ? 2 * u[a] : st == 2 ? r.range(2 * l[a], 2 * u[a]) : r.range(2 * l[a] - 6, 2 * u[a] + 6));
    }
    P lo, hi; for (size_t a = 0; a < DIM; ++a) {lo[a] = (S)l[a]; hi[a] = (S)u[a];}
    Interval<S, DIM> I(lo, hi);
    AxisAlignedBoundingBox<S, DIM> box(I);
    Interval<S, DIM> back = box.toInterval();
    bool ok = true; IV bl, bu, c2, h2;
    for (size_t a = 0; a < DIM; ++a) {
      bl.push_back(pr<S>(back.lower()[a], ok)); bu.push_back(pr<S>(back.upper()[a], ok));
      c2.push_back(pr<S>(2.0 * box.getCenterPosition()[a], ok)); h2.push_back(pr<S>(2.0 * box.getHalfWidthExtents()[a], ok));
    }
    out.put(vh::Ev("aabb").vec("l", l).vec("u", u).vec("p2", p2).vec("bl", bl).vec("bu", bu).vec("c2", c2).vec("h2", h2)
      .b("inside", box.isInside(half(p2))).b("insideI", I.inside(half(p2))).b("exact", ok));
    // hull of two intervals
    IV l2, u2;
    for (size_t a = 0; a < DIM; ++a) {long long x = r.range(-30, 30), w = r.range(0, 20); l2.push_back(x); u2.push_back(x + w);}
    P lo2, hi2; for (size_t a = 0; a < DIM; ++a) {lo2[a] = (S)l2[a]; hi2[a] = (S)u2[a];}
    Interval<S, DIM> J(lo, hi);
    J.include(Interval<S, DIM>(lo2, hi2));
    IV rl, ru; bool ok2 = true;
    for (size_t a = 0; a < DIM; ++a) {rl.push_back(pr<S>(J.lower()[a], ok2)); ru.push_back(pr<S>(J.upper()[a], ok2));}
    out.put(vh::Ev("include").vec("l1", l).vec("u1", u).vec("l2", l2).vec("u2", u2).vec("rl", rl).vec("ru", ru).b("exact", ok2));
    // the box of the interval that include() has grown, and the grown interval's own width / centre
    {
      IV hl, hu, q2;
      for (size_t a = 0; a < DIM; ++a) {hl.push_back(std::min(l[a], l2[a])); hu.push_back(std::max(u[a], u2[a]));}
      for (size_t a = 0; a < DIM; ++a) {int st = (int)r.range(0, 3); q2.push_back(st == 0 ? 2 * hl[a] : st == 1 ? 2 * hu[a] : st == 2 ? r.range(2 * hl[a], 2 * hu[a]) : 2 * hu[a] + 1);}
      AxisAlignedBoundingBox<S, DIM> box2(J);
      Interval<S, DIM> back2 = box2.toInterval();
      bool ok3 = true; IV bl2, bu2, cc2, hh2;
      for (size_t a = 0; a < DIM; ++a) {
        bl2.push_back(pr<S>(back2.lower()[a], ok3)); bu2.push_back(pr<S>(back2.upper()[a], ok3));
        cc2.push_back(pr<S>(2.0 * box2.getCenterPosition()[a], ok3)); hh2.push_back(pr<S>(2.0 * box2.getHalfWidthExtents()[a], ok3));
        if (pr<S>(2.0 * J.center()[a], ok3) != hl[a] + hu[a] || pr<S>(J.width()[a], ok3) != hu[a] - hl[a]) {ok3 = false;}
      }
      out.put(vh::Ev("aabb").vec("l", hl).vec("u", hu).vec("p2", q2).vec("bl", bl2).vec("bu", bu2).vec("c2", cc2).vec("h2", hh2)
        .b("inside", box2.isInside(half(q2))).b("insideI", J.inside(half(q2))).b("exact", ok3));
    }
  }
  // --- oriented box
  {
    auto & rq = r.pick(rots);
    const IM & Q = rq.first; long long den = rq.second;
    IV c2, h2, p2;
    for (size_t a = 0; a < DIM; ++a) {c2.push_back(r.range(-40, 40)); h2.push_back(r.coin(1, 6) ? 0 : 2 * den * r.range(0, 4));}
    if (r.coin()) {
      // a point given in the box frame: faces, edges, corners, interior, just outside (exact lattice point after rotation)
      IV t(DIM);
      for (size_t a = 0; a < DIM; ++a) {
        int st = (int)r.range(0, 4);
        t[a] = st == 0 ? h2[a] : st == 1 ? -h2[a] : st == 2 ? 0 : den * r.range(-10, 10);
      }
      for (size_t a = 0; a < DIM; ++a) {long long s = 0; for (size_t n = 0; n < DIM; ++n) {s += Q[a][n] * t[n];} p2.push_back(c2[a] + s / den);}
    } else {
      for (size_t a = 0; a < DIM; ++a) {p2.push_back(c2[a] + r.range(-60, 60));}
    }
    // single precision, a box far from the origin along ONE axis (coordinates of 2^20, where a float resolves 1/8) turned by a
    // signed permutation, lengths in units of 1/32: the query point and the point relative to the centre are exactly representable,
    // but a box-frame coordinate added to the far component of the centre is not
    S unit = 1;
    if (sizeof(S) == 4 && den == 1 && r.coin(1, 3)) {
      unit = (S)(1.0 / 32);
      const size_t farAxis = (size_t)r.range(0, DIM - 1);
      p2.clear();
      IV t(DIM);
      for (size_t a = 0; a < DIM; ++a) {
        c2[a] = a == farAxis ? (1LL << 26) * (r.coin() ? 1 : -1) : r.range(-40, 40);
        h2[a] = r.range(1, 60);
        int st = (int)r.range(0, 4);
        t[a] = st == 0 ? h2[a] : st == 1 ? -h2[a] : st == 2 ? (r.coin() ? 1 : -1) * (h2[a] + r.range(1, 3)) : st == 3 ? (r.coin() ? 1 : -1) * std::max(0LL, h2[a] - r.range(1, 3)) : r.range(-70, 70);
      }
      // the box-frame component that lands on the far axis must be a multiple of 1/8 (8 doubled units of 1/32)
      for (size_t n = 0; n < DIM; ++n) {if (Q[farAxis][n] != 0) {t[n] = (t[n] / 8) * 8;}}
      for (size_t a = 0; a < DIM; ++a) {long long s2 = 0; for (size_t n = 0; n < DIM; ++n) {s2 += Q[a][n] * t[n];} p2.push_back(c2[a] + s2);}
    }
    auto halfU = [&](const IV & v2) {P p; for (size_t a = 0; a < DIM; ++a) {p[a] = (S)((double)v2[a] / 2.0 * (double)unit);} return p;};
    Eigen::Matrix<S, DIM, DIM> R;
    for (size_t i = 0; i < DIM; ++i) {for (size_t j = 0; j < DIM; ++j) {R(i, j) = (S)((double)Q[i][j] / den);}}
    OrientedBoundingBox<S, DIM> obb(halfU(c2), halfU(h2), R);
    auto ab = obb.toAxisAlignedBoundingBox();
    bool ok = true; IV ahden, ac2;
    for (size_t a = 0; a < DIM; ++a) {
      ahden.push_back(pr<S>(2.0 * den * ab.getHalfWidthExtents()[a] / unit, ok)); ac2.push_back(pr<S>(2.0 * ab.getCenterPosition()[a] / unit, ok));
    }
    out.put(vh::Ev("obb").vec("c2", c2).vec("h2", h2).mat("Q", Q).i("den", den).vec("p2", p2).b("inside", obb.isInside(halfU(p2)))
      .vec("ahden", ahden).vec("ac2", ac2).b("exact", ok));
  }
}

// Generic oriented boxes: real-valued rotations - among them rotations by a few micro-radians - half-extents over six orders of
// magnitude (elongated and near-cubic boxes), real-valued centres.  The derived axis-aligned box must reach exactly as far as the
// corners do along every axis (it encloses the box and is tight): residual of its half-extent against sum_n |R(i,n)| h(n), computed
// in long double from the matrix, extents and centre the box was given, in units of one rounding of that reach.  Membership is
// compared with the box-frame test wherever the point is not within rounding of a face.
template<class S, size_t DIM>
static void genericObb(vh::Rng & r, vh::Out & out)
{
  using P = Eigen::Matrix<S, DIM, 1>;
  using M = Eigen::Matrix<S, DIM, DIM>;
  auto uni = [&](double a, double b) {return a + (b - a) * ((double)r.range(0, 1000000000) / 1e9);};
  auto angle = [&]() {
      int st = (int)r.range(0, 4);
      double a = st == 0 ? uni(-M_PI, M_PI) : st == 1 ? std::pow(10.0, uni(-9, -2)) * (r.coin() ? 1 : -1) :
        st == 2 ? (double)r.range(-4, 4) * M_PI / 2 + std::pow(10.0, uni(-9, -3)) : st == 3 ? 0.0 : uni(-0.1, 0.1);
      return a;
    };
  Eigen::Matrix<double, DIM, DIM> Rd;
  if constexpr (DIM == 2) {double a = angle(); Rd << std::cos(a), -std::sin(a), std::sin(a), std::cos(a);}
  else {
    Rd = (Eigen::AngleAxisd(angle(), Eigen::Vector3d::UnitZ()) * Eigen::AngleAxisd(r.coin() ? angle() : 0.0, Eigen::Vector3d::UnitY()) *
      Eigen::AngleAxisd(r.coin() ? angle() : 0.0, Eigen::Vector3d::UnitX())).toRotationMatrix();
  }
  M R = Rd.template cast<S>();
  P c, h;
  const double hs = std::pow(10.0, uni(-2, 3));
  const int shape = (int)r.range(0, 2);                       // elongated, near-cubic, anything
  for (size_t a = 0; a < DIM; ++a) {
    double f = shape == 0 ? (a == 0 ? 1.0 : std::pow(10.0, uni(-5, -1))) : shape == 1 ? uni(0.6, 1.0) : std::pow(10.0, uni(-3, 0));
    h[a] = (S)(r.coin(1, 12) ? 0.0 : hs * f);
    c[a] = (S)(r.coin(1, 4) ? 0.0 : uni(-10, 10) * hs);
  }
  if (shape == 0 && r.coin()) {std::swap(h[0], h[DIM - 1]);}
  OrientedBoundingBox<S, DIM> obb(c, h, R);
  auto ab = obb.toAxisAlignedBoundingBox();
  const long double eps = std::numeric_limits<S>::epsilon();
  auto units = [&](long double x) {long double v = std::ceil(x); return v < 1e9L ? (long long)v : 1000000000LL;};
  long double reachRes = 0, centreRes = 0;
  for (size_t i = 0; i < DIM; ++i) {
    long double reach = 0;
    for (size_t n = 0; n < DIM; ++n) {reach += std::fabs((long double)R(i, n)) * (long double)h[n];}
    long double e = ab.getHalfWidthExtents()[i];
    reachRes = std::max(reachRes, reach > 0 ? std::fabs(e - reach) / (eps * reach) : (e == 0 ? 0.0L : 1e9L));
    long double cm = std::max<long double>(std::fabs((long double)c[i]), 1e-300L);
    centreRes = std::max(centreRes, std::fabs((long double)ab.getCenterPosition()[i] - (long double)c[i]) / (eps * cm));
  }
  // membership: points given in the box frame (interior, near corners, outside), decided in long double from what the box was given
  bool agree = true; int decided = 0;
  long double big = 0; for (size_t a = 0; a < DIM; ++a) {big = std::max({big, std::fabs((long double)c[a]), (long double)h[a]});}
  for (int k = 0; k < 40; ++k) {
    Eigen::Matrix<long double, DIM, 1> q;
    for (size_t a = 0; a < DIM; ++a) {
      int st = (int)r.range(0, 5);
      long double f = st == 0 ? uni(-0.99, 0.99) : st == 1 ? 0.97 : st == 2 ? -0.97 : st == 3 ? (r.coin() ? 1.05 : -1.05) : st == 4 ? uni(-3, 3) : 0.9;
      q[a] = f * (long double)h[a];
    }
    P p;
    for (size_t i = 0; i < DIM; ++i) {long double v = c[i]; for (size_t n = 0; n < DIM; ++n) {v += (long double)R(i, n) * q[n];} p[i] = (S)v;}
    // the box-frame coordinates of the point actually passed
    bool inside = true, sure = true;
    for (size_t n = 0; n < DIM; ++n) {
      long double v = 0; for (size_t i = 0; i < DIM; ++i) {v += (long double)R(i, n) * ((long double)p[i] - (long double)c[i]);}
      long double d = std::fabs(v) - (long double)h[n];
      if (std::fabs(d) < 64 * eps * (big + std::fabs(v))) {sure = false;}
      if (d > 0) {inside = false;}
    }
    if (!sure) {continue;}
    ++decided;
    if (obb.isInside(p) != inside) {agree = false;}
  }
  out.put(vh::Ev("generic").i("dim", DIM).i("float", sizeof(S) == 4).b("agree", agree).i("decided", decided)
    .vec("res", IV{units(reachRes), units(centreRes)}));
}

template<class PT, size_t CDIM>
static PT mkPoint(const IV & p)
{
  PT x;
  if constexpr (PT::RowsAtCompileTime == (int)CDIM) {for (size_t a = 0; a < CDIM; ++a) {x[a] = (typename PT::Scalar)p[a];}}
  else {for (size_t a = 0; a < CDIM; ++a) {x[a] = (typename PT::Scalar)p[a];} x[CDIM] = 1;}
  return x;
}

static std::vector<IV> randomSet(vh::Rng & r, size_t dim)
{
  int n = r.coin(1, 3) ? (int)r.range(1, 4) : (int)r.range(1, r.coin(1, 5) ? 1000 : 60);
  int octant = (int)r.range(0, 9);      // 8: mixed signs
  long long mag = r.pick(std::vector<long long>{5, 100, 1000});
  std::vector<IV> pts;
  for (int k = 0; k < n; ++k) {
    IV p;
    for (size_t a = 0; a < dim; ++a) {
      long long v = r.range(1, mag);
      if (octant >= 8) {v = r.range(-mag, mag);} else if ((octant >> a) & 1) {v = -v;}
      p.push_back(v);
    }
    pts.push_back(p);
  }
  if (r.coin(1, 6)) {for (auto & p : pts) {p = pts[0];}}           // all points equal: zero extent
  return pts;
}

template<class PT, size_t CDIM>
static void precond(vh::Rng & r, vh::Out & out, int typeIdx)
{
  using S = typename PT::Scalar;
  auto pts = randomSet(r, CDIM);
  PointSet<PT> ps;
  for (auto & p : pts) {ps.push_back(mkPoint<PT, CDIM>(p));}
  // histories: a long-lived preconditioner is recomputed for set after set; a fresh one is used now and then
  static PointSetPreconditioner<PT> reused;
  PointSetPreconditioner<PT> fresh;
  const bool useFresh = r.coin(1, 4);
  if (useFresh) {fresh = PointSetPreconditioner<PT>(ps);} else {reused.compute(ps);}
  const PointSetPreconditioner<PT> & pc = useFresh ? fresh : reused;
  bool ok = true; IV mn, mx, sm;
  double n = (double)pts.size();
  for (size_t a = 0; a < CDIM; ++a) {
    mn.push_back(pr<S>(pc.getPointSetMin()[a], ok)); mx.push_back(pr<S>(pc.getPointSetMax()[a], ok));
    bool oks = true; sm.push_back(vh::proj((double)pc.getPointSetMean()[a] * n, oks, sizeof(S) == 4 ? 2e-3 : 1e-9)); ok = ok && oks;
  }
  double sc = pc.getScale();
  bool inf = std::isinf(sc);
  long long side = 0;
  if (!inf) {side = pr<S>(1.0 / sc, ok);}
  out.put(vh::Ev("extent").str("kind", "precond").i("type", typeIdx).mat("pts", pts).vec("mn", mn).vec("mx", mx).vec("sm", sm)
    .i("n", (long long)pts.size()).b("hasMinMax", true).b("hasScale", true).b("inf", inf).i("side", side).b("exact", ok));
}

template<class AT, size_t DIM>
static void container(vh::Rng & r, vh::Out & out, int typeIdx)
{
  using S = typename AT::Scalar;
  auto pts = randomSet(r, DIM);
  VectorOfEigenVector<AT> v;
  for (auto & p : pts) {AT x; for (size_t a = 0; a < DIM; ++a) {x[a] = (S)p[a];} v.push_back(x);}
  AT mnv = romea::core::min(v), mxv = romea::core::max(v), me = romea::core::mean(v);
  bool ok = true; IV mn, mx, sm;
  for (size_t a = 0; a < DIM; ++a) {
    mn.push_back(pr<S>(mnv[a], ok)); mx.push_back(pr<S>(mxv[a], ok));
    bool oks = true; sm.push_back(vh::proj((double)me[a] * (double)pts.size(), oks, sizeof(S) == 4 ? 2e-3 : 1e-9)); ok = ok && oks;
  }
  out.put(vh::Ev("extent").str("kind", "container").i("type", typeIdx).mat("pts", pts).vec("mn", mn).vec("mx", mx).vec("sm", sm)
    .i("n", (long long)pts.size()).b("hasMinMax", true).b("hasScale", false).b("inf", false).i("side", 0).b("exact", ok));
}

template<class S>
static void interval1(vh::Rng & r, vh::Out & out)
{
  long long l1 = r.range(-30, 30), u1 = l1 + (r.coin(1, 5) ? 0 : r.range(0, 20)), l2 = r.range(-30, 30), u2 = l2 + r.range(0, 20);
  long long p2 = r.pick(IV{2 * l1, 2 * u1, r.range(2 * l1 - 6, 2 * u1 + 6)});
  Interval<S, 1> I((S)l1, (S)u1);
  bool inside = I.inside((S)(p2 / 2.0));
  Interval<S, 1> J((S)l1, (S)u1); J.include(Interval<S, 1>((S)l2, (S)u2));
  bool ok = true;
  out.put(vh::Ev("interval1").i("l1", l1).i("u1", u1).i("l2", l2).i("u2", u2).i("p2", p2).b("inside", inside)
    .i("rl", vh::proj((double)J.lower(), ok, 1e-9)).i("ru", vh::proj((double)J.upper(), ok, 1e-9))
    .i("w", vh::proj((double)I.width(), ok, 1e-9)).i("c2", vh::proj(2.0 * (double)I.center(), ok, 1e-9)).b("exact", ok));
}

int main(int argc, char ** argv)
{
  if (argc != 5 || std::string(argv[1]) != "random") {std::fprintf(stderr, "usage: drive_boxes random seed n out\n"); return 3;}
  vh::Rng r(std::strtoull(argv[2], nullptr, 10));
  int n = std::atoi(argv[3]);
  vh::Out out(argv[4]);
  out.put(vh::Ev("Reset"));
  for (int k = 0; k < n; ++k) {
    switch (k % 4) {
      case 0: boxes<double, 2>(r, out); break;
      case 1: boxes<double, 3>(r, out); break;
      case 2: boxes<float, 2>(r, out); break;
      default: boxes<float, 3>(r, out);
    }
    switch (k % 12) {
      case 0: precond<Eigen::Vector2f, 2>(r, out, 0); break;
      case 1: precond<Eigen::Vector2d, 2>(r, out, 1); break;
      case 2: precond<Eigen::Vector3f, 3>(r, out, 2); break;
      case 3: precond<Eigen::Vector3d, 3>(r, out, 3); break;
      case 4: precond<HomogeneousCoordinates2f, 2>(r, out, 4); break;
      case 5: precond<HomogeneousCoordinates2d, 2>(r, out, 5); break;
      case 6: precond<HomogeneousCoordinates3f, 3>(r, out, 6); break;
      case 7: precond<HomogeneousCoordinates3d, 3>(r, out, 7); break;
      case 8: container<Eigen::Array2d, 2>(r, out, 8); break;
      case 9: container<Eigen::Array3d, 3>(r, out, 9); break;
      case 10: container<Eigen::Array2f, 2>(r, out, 10); break;
      default: container<Eigen::Array3f, 3>(r, out, 11);
    }
    if (k % 2) {interval1<double>(r, out);} else {interval1<float>(r, out);}
    switch (k % 4) {
      case 0: genericObb<double, 2>(r, out); break;
      case 1: genericObb<double, 3>(r, out); break;
      case 2: genericObb<float, 2>(r, out); break;
      default: genericObb<float, 3>(r, out);
    }
    if (k % 50 == 49) {out.put(vh::Ev("Reset"));}
  }
  std::printf("%lld\n", out.lines);
  return 0;
}
