// Lattice rigid motions shared by the registration drivers: rotation matrices with integer entries over a common denominator
// (planar: quarter turns and Pythagorean angles; spatial: the 24 proper signed permutations and their products with Pythagorean
// rotations about z).
#pragma once
#include <utility>
#include <vector>
using IV = std::vector<long long>;
using IM = std::vector<IV>;

static void motions(size_t dim, std::vector<std::pair<IM, long long>> & out)
{
  if (dim == 2) {
    long long cs[][3] = {{1, 0, 1}, {0, 1, 1}, {-1, 0, 1}, {0, -1, 1}, {3, 4, 5}, {4, 3, 5}, {-3, 4, 5}, {-4, -3, 5}, {4, -3, 5}, {-4, 3, 5}, {3, -4, 5}, {-3, -4, 5},
      {5, 12, 13}, {7, 24, 25}};
    for (auto & t : cs) {out.push_back({IM{{t[0], -t[1]}, {t[1], t[0]}}, t[2]});}
    return;
  }
  int perm[6][3] = {{0, 1, 2}, {0, 2, 1}, {1, 0, 2}, {1, 2, 0}, {2, 0, 1}, {2, 1, 0}};
  std::vector<IM> perms;
  for (auto & p : perm) {for (int s = 0; s < 8; ++s) {
      IM q(3, IV(3, 0));
      for (int r = 0; r < 3; ++r) {q[r][p[r]] = (s >> r) & 1 ? -1 : 1;}
      long long det = q[0][0] * (q[1][1] * q[2][2] - q[1][2] * q[2][1]) - q[0][1] * (q[1][0] * q[2][2] - q[1][2] * q[2][0]) +
        q[0][2] * (q[1][0] * q[2][1] - q[1][1] * q[2][0]);
      if (det == 1) {perms.push_back(q); out.push_back({q, 1});}}}
  long long cs[][3] = {{3, 4, 5}, {-4, 3, 5}, {5, 12, 13}};
  for (auto & t : cs) {
    IM rz{{t[0], -t[1], 0}, {t[1], t[0], 0}, {0, 0, t[2]}};
    for (auto & p : perms) {
      IM q(3, IV(3, 0));
      for (int i = 0; i < 3; ++i) {for (int j = 0; j < 3; ++j) {for (int k = 0; k < 3; ++k) {q[i][j] += p[i][k] * rz[k][j];}}}
      out.push_back({q, t[2]});
    }
  }
}

