// Shared helpers of the conformance harnesses: ndjson event writer, seeded PRNG,
// whitespace script reader.  Everything TLC sees is a small integer (DESIGN 3.1).
#pragma once
#include <algorithm>
#include <cmath>
#include <csignal>
#include <exception>
#include <cstdint>
#include <cstdio>
#include <cstdlib>
#include <fstream>
#include <iostream>
#include <random>
#include <sstream>
#include <string>
#include <vector>

namespace vh
{
struct Ev
{
  std::string s;
  bool first = true;
  explicit Ev(const char * name) {s = "{\"e\":\""; s += name; s += "\""; first = false;}
  void key(const char * k) {s += ",\""; s += k; s += "\":";}
  Ev & i(const char * k, long long v) {key(k); s += std::to_string(v); return *this;}
  Ev & b(const char * k, bool v) {key(k); s += v ? "true" : "false"; return *this;}
  Ev & str(const char * k, const std::string & v)
  {
    key(k); s += "\"";
    for (char c : v) {
      if (c == '"' || c == '\\') {s += '\\'; s += c;} else if (c == '\n') {s += "\\n";} else {s += c;}
    }
    s += "\""; return *this;
  }
  template<class V> Ev & vec(const char * k, const V & v)
  {
    key(k); s += "[";
    bool f = true;
    for (auto x : v) {if (!f) {s += ",";} f = false; s += std::to_string((long long)x);}
    s += "]"; return *this;
  }
  template<class V> Ev & mat(const char * k, const V & m)
  {
    key(k); s += "[";
    bool f = true;
    for (auto & row : m) {
      if (!f) {s += ",";} f = false; s += "[";
      bool g = true;
      for (auto x : row) {if (!g) {s += ",";} g = false; s += std::to_string((long long)x);}
      s += "]";
    }
    s += "]"; return *this;
  }
  Ev & raw(const char * k, const std::string & json) {key(k); s += json; return *this;}
  std::string done() const {return s + "}\n";}
};

// A crash of the code under test (failed assert, segmentation fault, uncaught exception) on an input of the property's domain is
// an observation, not a failure of the machinery: it is recorded as a final {"e":"crash"} event, which no specification accepts.
struct Out;
inline Out * & openOut(int k) {static Out * outs[4] = {nullptr, nullptr, nullptr, nullptr}; return outs[k];}
inline void crashHandler(int sig);
struct Out
{
  FILE * f;
  long long lines = 0;
  explicit Out(const char * path)
  {
    f = std::fopen(path, "w"); if (!f) {std::perror(path); std::exit(3);}
    for (int k = 0; k < 4; ++k) {if (!openOut(k)) {openOut(k) = this; break;}}
    std::signal(SIGABRT, crashHandler); std::signal(SIGSEGV, crashHandler); std::signal(SIGFPE, crashHandler);
    std::set_terminate([]() {crashHandler(0);});
  }
  ~Out() {for (int k = 0; k < 4; ++k) {if (openOut(k) == this) {openOut(k) = nullptr;}} if (f) {std::fclose(f);}}
  void put(const Ev & e) {auto s = e.done(); std::fwrite(s.data(), 1, s.size(), f); ++lines;}
  void puts(const std::string & s) {std::fwrite(s.data(), 1, s.size(), f); ++lines;}
};

inline void crashHandler(int sig)
{
  for (int k = 0; k < 4; ++k) {
    Out * o = openOut(k);
    if (o && o->f) {std::fprintf(o->f, "{\"e\":\"crash\",\"sig\":%d}\n", sig); std::fflush(o->f);}
  }
  std::fprintf(stderr, "code under test crashed (signal %d): recorded as a crash event\n", sig);
  std::_Exit(0);
}

struct Rng
{
  std::mt19937_64 g;
  explicit Rng(uint64_t seed) : g(seed * 0x9E3779B97F4A7C15ull + 12345) {}
  long long range(long long lo, long long hi) {return lo + (long long)(g() % (uint64_t)(hi - lo + 1));}
  bool coin(int num = 1, int den = 2) {return (long long)(g() % den) < num;}
  template<class T> const T & pick(const std::vector<T> & v) {return v[g() % v.size()];}
};

// exact projection of a double onto an integer; ok=false when not within tol (relative) of one
inline long long proj(double x, bool & ok, double tol = 1e-6)
{
  if (!std::isfinite(x)) {ok = false; return 0;}
  double r = std::nearbyint(x);
  if (std::fabs(x - r) > tol * std::max(1.0, std::fabs(r))) {ok = false;}
  if (std::fabs(r) > 2.0e9) {ok = false; return 0;}
  return (long long)r;
}

inline std::vector<std::vector<std::string>> readScript(const char * path)
{
  std::vector<std::vector<std::string>> out;
  std::ifstream in(path);
  if (!in) {std::perror(path); std::exit(3);}
  std::string line;
  while (std::getline(in, line)) {
    std::istringstream ss(line);
    std::vector<std::string> t;
    std::string w;
    while (ss >> w) {t.push_back(w);}
    if (!t.empty()) {out.push_back(t);}
  }
  return out;
}
inline long long I(const std::string & s) {return std::stoll(s);}
}  // namespace vh
