"""C05 - point-to-plane least-squares registration on exact lattices (spec/RigidFit.tla)."""
from checks import c04


def run(tier, seed):
    return c04.run_which("C05", "p2p",
                         "consistent integer point-to-plane instances (axis-aligned unit normals spanning the space, integer parameter vector, pure "
                         "translations included): normal equations evaluated exactly by TLC, returned matrix = identity + skew + translation; "
                         "aligned / index-based overloads, with and without preconditioning, eight point types",
                         ["EXACT LATTICE ONLY: consistent integer instances with axis-aligned normals; 6..200 correspondences; preconditioning scales "
                          "in [0.05, 10] so that the normal matrix stays well conditioned",
                          "not decided: the O(t^2) rotation-recovery clause (asymptotic), noisy instances"], tier, seed)


def replay(path, seed):
    return c04.replay(path, seed, "C05")
