"""C19 - concurrent use (spec/Concurrent.tla model; spec/Trace_Concurrent.tla over recorded inv/lock/unlock/res
histories; the same workload under ThreadSanitizer as the recorder of memory-level races)."""
import concurrent.futures as cf
import os
import re
import subprocess
import vlib
from vlib import Report, log

PROP = "C19"
W = os.path.join(vlib.BUILD, PROP)
SRCS = ["src/monitoring/OnlineAverage.cpp", "src/monitoring/OnlineVariance.cpp", "src/monitoring/RateMonitoring.cpp",
        "src/diagnostics/CheckupRate.cpp", "src/diagnostics/CheckupReliability.cpp", "src/diagnostics/Diagnostic.cpp",
        "src/diagnostics/DiagnosticReport.cpp", "src/diagnostics/DiagnosticStatus.cpp"]
KINDS = ["sv", "svw", "sov", "avg", "var", "ckeq", "ckgt", "ckpair", "cklt", "rel", "rm", "rceq", "rcgt"]
INV = ["RaceFree", "CopyCoherent", "QuiescentCoherent"]


def build_trace():
    return vlib.build("stress_trace", ["stress_concurrent.cpp"], SRCS, flags=["-DVERIF_TRACE"], opt="-O1",
                      ldflags=["-Wl,--wrap=pthread_mutex_lock", "-Wl,--wrap=pthread_mutex_unlock", "-Wl,--wrap=pthread_rwlock_wrlock",
                               "-Wl,--wrap=pthread_rwlock_rdlock", "-Wl,--wrap=pthread_rwlock_unlock"])


def build_tsan():
    return vlib.build("stress_tsan", ["stress_concurrent.cpp"], SRCS, flags=["-fsanitize=thread", "-g"], opt="-O1", cxx="clang++-14")


def model(rep, quick):
    """Exhaustive interleavings of the locking design; each as-coded deviation must break an invariant."""
    base = dict(Threads="<- ThreadsWWR", Program="<- ProgWWR", Fields="<- F3", Writes="<- WritesWH")
    wrr = dict(Threads="<- ThreadsWRR", Program="<- ProgWRR", Fields="<- F2" if quick else "<- F3", Writes="<- WritesW")
    for name, c in (("mc_wwr_guarded", dict(base, Shape="<- ShapeAllGuarded")), ("mc_wrr_guarded", dict(wrr, Shape="<- ShapeAllGuarded"))):
        vlib.mc(rep, "MC_Concurrent.tla", c, name, INV, view=None, actions=["Step"])
    # nested locking of the composed objects: deadlock freedom and a consistent nesting order in every interleaving;
    # a deviation that nests two mutexes in opposite orders must deadlock in the model
    lo = dict(Threads="<- T3", Program="<- Prog", Nesting="<- NestAsDesigned")
    cfg = vlib.write_cfg("c19_lockorder", lo, ["OrderConsistent"], deadlock=True)
    r = vlib.need_ok(vlib.tlc("MC_LockOrder.tla", cfg, workers=4, timeout=600, coverage=True), "lockorder")
    rep.add_tlc("mc_lockorder", r)
    cfg = vlib.write_cfg("c19_lockorder_inv", dict(lo, Nesting="<- NestInverted"), ["OrderConsistent"], deadlock=True)
    r = vlib.tlc("MC_LockOrder.tla", cfg, workers=4, timeout=600)
    if r.violated not in ("deadlock", "OrderConsistent"):
        raise vlib.Infra("vacuity: inverted lock nesting neither deadlocks nor breaks OrderConsistent in the model (%s)" % r.violated)
    rep.extra.setdefault("deviations_rejected_by_model", []).append("NestInverted -> %s" % r.violated)
    for dev, inv in (("ShapeBareWrite", "RaceFree"), ("ShapeBareRead", "RaceFree"), ("ShapeByRefRead", "RaceFree"),
                     ("ShapeByRefRead", "CopyCoherent"), ("ShapeSplitWrite", "QuiescentCoherent")):
        cfg = vlib.write_cfg("c19_dev_%s_%s" % (dev, inv), dict(base, Shape="<- " + dev), [inv])
        r = vlib.tlc("MC_Concurrent.tla", cfg, workers=4, timeout=600)
        if r.error:
            raise vlib.Infra("deviation model %s: %s" % (dev, r.error))
        if r.violated != inv:
            raise vlib.Infra("vacuity: locking deviation %s does not violate %s in the model" % (dev, inv))
        rep.extra.setdefault("deviations_rejected_by_model", []).append("%s violates %s" % (dev, inv))
        for f in os.listdir(vlib.SPEC):
            if "_TTrace_" in f:
                os.remove(os.path.join(vlib.SPEC, f))


def tsan_run(exe, kind, readers, ops, seed):
    env = dict(os.environ, TSAN_OPTIONS="halt_on_error=0 exitcode=0 history_size=4")
    try:
        p = subprocess.run([exe, kind, str(readers), str(ops), str(seed), "-"], capture_output=True, text=True, timeout=1500, env=env)
    except subprocess.TimeoutExpired:
        raise vlib.Hang([exe, kind, str(readers), str(ops), str(seed), "-"], 1500)
    reports = p.stderr.split("==================")
    reports = [r for r in reports if "WARNING: ThreadSanitizer" in r]
    if p.returncode != 0 and not reports:
        raise vlib.Infra("tsan run failed rc=%d: %s %d\n%s" % (p.returncode, kind, readers, p.stderr[-1500:]))
    return kind, readers, reports


def run(tier, seed):
    rep = Report(PROP, tier, seed)
    os.makedirs(W, exist_ok=True)
    quick = tier == "quick"
    model(rep, quick)
    # ---- recorded inv/lock/unlock/res histories validated by TLC
    exe = build_trace()
    trace = os.path.join(W, "conc.ndjson")
    if os.path.exists(trace):
        os.remove(trace)
    readers = [1, 3, 8] if quick else [1, 2, 3, 4, 6, 8]
    ops = 1500 if quick else 3000
    n = 0
    for k in KINDS:
        for rd in readers:
            for rnd in range(1 if quick else 3):
                pr = vlib.run([exe, k, str(rd), str(ops), str(seed * 100 + n), trace], timeout=int(os.environ.get("VERIF_STRESS_TIMEOUT", "600")), check=False)
                if pr.returncode != 0:
                    # the code under test crashed under concurrent use (e.g. a container corrupted by a race): an observation, not an infra failure
                    os.makedirs(vlib.REPLAY, exist_ok=True)
                    p = os.path.join(vlib.REPLAY, "C19-crash-%s-%d.txt" % (k, rd))
                    with open(p, "w") as f:
                        f.write("kind=%s readers=%d ops=%d seed=%d\ncrash rc=%d\n%s" % (k, rd, ops, seed * 100 + n, pr.returncode, (pr.stderr or "")[-2000:]))
                    rep.violation("object %s with %d readers: the library crashed under concurrent use (rc %d)" % (k, rd, pr.returncode), p)
                n += 1
    if not os.path.exists(trace):
        open(trace, "w").write('{"e":"Reset","kind":"sv","threads":1,"ck":"eq","a":0,"b":0,"W":1}\n')
    vlib.trace_leg(rep, "Trace_Concurrent.tla", "Trace_Concurrent.cfg", trace, "histories",
                   "concurrent history (1 writer, 1..8 readers / producers / consumers / heartbeats): mutators guarded, values linearizable")
    # ---- the same workload under ThreadSanitizer
    tsan = build_tsan()
    tops = 100000 if quick else 400000
    jobs = [(k, rd) for k in KINDS for rd in ([1, 4, 8] if quick else range(1, 9))]
    races = 0
    with cf.ThreadPoolExecutor(4) as ex:
        for kind, rd, reports in ex.map(lambda j: tsan_run(tsan, j[0], j[1], tops, seed), jobs):
            if reports:
                races += 1
                os.makedirs(vlib.REPLAY, exist_ok=True)
                p = os.path.join(vlib.REPLAY, "C19-tsan-%s-%d.txt" % (kind, rd))
                with open(p, "w") as f:
                    f.write("kind=%s readers=%d ops=%d seed=%d\n" % (kind, rd, tops, seed))
                    f.write("==================".join(reports[:3]))
                m = re.search(r"#0 (.*?) (/\S+:\d+)", reports[0])
                rep.violation("ThreadSanitizer data race, object %s with %d readers: %s" % (kind, rd, m.group(0) if m else reports[0][:300]), p)
    log("[C19] tsan: %d runs of %d writer operations, %d with reports" % (len(jobs), tops, races))
    rep.extra["tsan"] = {"runs": len(jobs), "writer_ops_per_run": tops, "runs_with_reports": races}
    rep.traces += len(jobs) - races
    rep.assumptions += ["model: 3 threads x 2 calls, 2..3 fields, every interleaving; lock structure is the parameter Shape",
                        "recorded histories: mutator effects are pinned at the call's first acquisition of a mutex inside the object; "
                        "read-only calls may return any observation between invocation and response",
                        "data races on the code are those ThreadSanitizer's happens-before analysis reports for the runs made",
                        "window sizes <= 8 for the statistics (average logged as avg*m*840)"]
    return rep.finish()


def replay(path, seed):
    if path.endswith(".txt"):
        head = open(path).readline()
        m = re.match(r"kind=(\S+) readers=(\d+) ops=(\d+) seed=(\d+)", head)
        kind, rd, reports = tsan_run(build_tsan(), m.group(1), int(m.group(2)), int(m.group(3)), int(m.group(4)))
        if reports:
            print("VIOLATION property=%s replay=%s" % (PROP, path))
            print(reports[0][:1500])
            return 1
        print("no ThreadSanitizer report on re-run")
        return 0
    ok, matched, r = vlib.validate_trace("Trace_Concurrent.tla", "Trace_Concurrent.cfg", path)
    if ok:
        print("replay accepted (%d events)" % matched)
        return 0
    print("VIOLATION property=%s replay=%s" % (PROP, path))
    return 1
