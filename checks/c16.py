"""C16 - sliding-window statistics and ring buffer (spec/SlidingStats.tla, spec/Ring.tla)."""
import json
import os
import vlib
from vlib import Report

PROP = "C16"
W = os.path.join(vlib.BUILD, PROP)
SRCS = ["src/monitoring/OnlineAverage.cpp", "src/monitoring/OnlineVariance.cpp"]
ODD = [-9, -7, -3, -1, 1, 3, 5, 9]
MIXED = [-9, -5, -1, 0, 3, 4, 7, 8]


def build():
    return vlib.build("drive_stats", ["drive_stats.cpp"], SRCS)


def stats_script(paths, out, precisions):
    n = 0
    with open(out, "w") as o:
        for line in open(paths):
            p = json.loads(line)
            for kind in ("avg", "var"):
                if kind == "var" and p["W"] < 2:
                    continue
                for pi in precisions:
                    dy = pi < 4
                    qs = [ev["q"] for ev in p["path"] if ev["e"] == "update"]
                    if not dy and any(q % 4 == 0 for q in qs):
                        continue   # exact multiples of a decimal precision are float-fragile: dyadic precisions only
                    o.write("R %s %d %d%s\n" % (kind, p["W"], pi, " setter" if n % 3 == 0 else ""))
                    if kind == "var" and any(ev["e"] == "resize" and ev["W"] < 2 for ev in p["path"]):
                        continue
                    for ev in p["path"]:
                        o.write("U %d\n" % ev["q"] if ev["e"] == "update" else "S %d\n" % ev["W"] if ev["e"] == "resize" else "Z\n")
                    o.write("X %s\n" % " ".join(map(str, MIXED if dy else ODD)))
                    n += 1
    return n


def ring_script(paths, out):
    n = 0
    with open(out, "w") as o:
        for line in open(paths):
            p = json.loads(line)
            o.write("R ring %d\n" % p["C"])
            for ev in p["path"]:
                o.write("A %d\n" % ev["v"] if ev["e"] == "append" else "C\n")
            o.write("X\n")
            n += 1
    return n


def run(tier, seed):
    rep = Report(PROP, tier, seed)
    os.makedirs(W, exist_ok=True)
    exe = build()
    quick = tier == "quick"
    # leg 1: model checking
    ws = {1, 2, 3, 4, 5} if quick else {1, 2, 3, 4, 5, 6}
    vlib.mc(rep, "MC_SlidingStats.tla", dict(Ws=ws, Samples="<- SamplesMixed", Extra=3), "mc_stats",
            ["Refines", "VarNonNegative"], actions=["DoUpdate", "DoReset", "DoResize"])
    vlib.mc(rep, "MC_Ring.tla", dict(Cs=set(range(1, 9 if quick else 17)), Extra=2), "mc_ring",
            ["Refines", "SizeIsMin", "MostRecentFirst"], actions=["DoAppend", "DoClear"])
    # leg 2: every reachable model state, every action, on the real objects
    sp = vlib.gen_paths(rep, "MC_SlidingStats.tla", dict(Ws={1, 2, 3} if quick else {1, 2, 3, 4}, Samples="<- SamplesMixed", Extra=2),
                        "gen_stats")
    rp = vlib.gen_paths(rep, "MC_Ring.tla", dict(Cs=set(range(1, 9 if quick else 17)), Extra=2), "gen_ring")
    script = os.path.join(W, "gen.script")
    ns = stats_script(sp, script, [0, 2, 4, 8, 9] if quick else list(range(10)))
    with open(script, "a") as o:
        pass
    rscript = os.path.join(W, "genring.script")
    nr = ring_script(rp, rscript)
    with open(script, "a") as o:
        o.write(open(rscript).read())
    st, rt = os.path.join(W, "gen_stats.ndjson"), os.path.join(W, "gen_ring.ndjson")
    vlib.run([exe, "script", script, st, rt], timeout=1200)
    rep.extra["replay"] = {"stats_states_x_precisions": ns, "ring_states": nr}
    vlib.trace_leg(rep, "Trace_SlidingStats.tla", "Trace_SlidingStats.cfg", st, "gen_stats",
                   "model state + action replayed on OnlineAverage/OnlineVariance")
    vlib.trace_leg(rep, "Trace_Ring.tla", "Trace_Ring.cfg", rt, "gen_ring", "model state + action replayed on RingOfEigenVector", chunks=4)
    # leg 3: long random histories
    st, rt = os.path.join(W, "rnd_stats.ndjson"), os.path.join(W, "rnd_ring.ndjson")
    vlib.run([exe, "random", str(seed), str(1500 if quick else 20000), st, rt], timeout=1200)
    vlib.trace_leg(rep, "Trace_SlidingStats.tla", "Trace_SlidingStats.cfg", st, "random_stats",
                   "random update/reset history (W 1..64, precisions 1..1e-6)")
    vlib.trace_leg(rep, "Trace_Ring.tla", "Trace_Ring.cfg", rt, "random_ring", "random append/clear history (capacity 1..16)", chunks=4)
    rep.assumptions += ["|sample| <= 200 precision units (32-bit TLC integers); the 1e8 magnitude clause is not explored",
                        "samples for decimal precisions avoid exact multiples of the precision (binary rounding of the product)",
                        "the integer scale of a precision is 1/p rounded or truncated, calibrated on the library"]
    return rep.finish()


def replay(path, seed):
    first = open(path).readline()
    mod = "Trace_Ring" if '"C"' in first else "Trace_SlidingStats"
    ok, matched, r = vlib.validate_trace(mod + ".tla", mod + ".cfg", path)
    if ok:
        print("replay accepted (%d events)" % matched)
        return 0
    print("VIOLATION property=%s replay=%s" % (PROP, path))
    return 1
