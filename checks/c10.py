"""C10 - angle / rotation / coordinate parametrisations on exact rational lattices (spec/Rot.tla)."""
import os
import vlib
from vlib import Report

PROP = "C10"
W = os.path.join(vlib.BUILD, PROP)
SRCS = ["src/transform/SmartRotation3D.cpp"]


def build():
    return vlib.build("drive_rot", ["drive_rot.cpp"], SRCS)


def run(tier, seed):
    rep = Report(PROP, tier, seed)
    os.makedirs(W, exist_ok=True)
    exe = build()
    # leg 1: laws of the lattice rotations (orthogonal, proper, angle extraction well defined, derivatives skew) over all 20 x 12 x 20 triples
    cfg = vlib.write_cfg("c10_laws", None, ["LawsHold"], init_next=("Init", "Next"))
    r = vlib.need_ok(vlib.tlc("MC_Rot.tla", cfg, workers=4, timeout=3000), "laws")
    rep.add_tlc("laws", r)
    # leg 2: every lattice triple through the real conversions (double and float), normalisers, 2D, polar, spherical
    tr = os.path.join(W, "rot.ndjson")
    vlib.run([exe, "all", tr], timeout=600)
    vlib.trace_leg(rep, "Trace_Rot.tla", "Trace_Rot.cfg", tr, "lattice",
                   "angles -> rotation / quaternion / SmartRotation3D and back on every lattice triple; normalisers; 2D; polar; spherical")
    # leg 3: generic (non-lattice) inputs over the whole quantified domain: residuals of the consistency relations
    tr = os.path.join(W, "generic.ndjson")
    vlib.run([exe, "generic", str(seed), str(20000 if tier == "quick" else 400000), tr], timeout=600)
    vlib.trace_leg(rep, "Trace_Rot.tla", "Trace_Rot.cfg", tr, "generic",
                   "random roll/yaw in (-2pi,2pi), pitch up to pi/2-1e-3, random rotations and non-unit quaternions, normalisers on (-4pi,4pi), "
                   "points with norm 1e-6..1e6: residuals of the consistency relations <= 1e-9 (double) / 1e-4 (float)")
    rep.assumptions += ["EXACT RATIONAL LATTICE ONLY: roll, yaw in the 20 lattice angles (quarter turns, 3-4-5 and 7-24-25 angles) plus/minus a full "
                        "turn, pitch in the 12 with positive cosine; tolerance 1e-9 (double) / 1e-4 (float)",
                        "not decided: generic angles, the neighbourhood of gimbal lock, Transformation.hpp"]
    return rep.finish()


def replay(path, seed):
    ok, matched, r = vlib.validate_trace("Trace_Rot.tla", "Trace_Rot.cfg", path)
    if ok:
        print("replay accepted (%d events)" % matched)
        return 0
    print("VIOLATION property=%s replay=%s" % (PROP, path))
    return 1
