"""C15 - scrolling grid (spec/ScrollGrid.tla, WrappableGrid<int,2/3>)."""
import json
import os
import vlib
from vlib import Report, log

PROP = "C15"
W = os.path.join(vlib.BUILD, PROP)
EMP = {900, 901}


def build():
    return vlib.build("drive_scrollgrid", ["drive_scrollgrid.cpp"])


def paths_to_script(paths, script):
    n = 0
    with open(paths) as f, open(script, "w") as o:
        for line in f:
            p = json.loads(line)
            o.write("R %d %s\n" % (p["dim"], " ".join(map(str, p["n"]))))
            o.write("I %s\n" % " ".join(map(str, p["init"])))
            for ev in p["path"]:
                if ev["e"] == "translate":
                    o.write("T %s %d\n" % (" ".join(map(str, ev["d"])), ev["empty"]))
                elif ev["e"] == "write":
                    o.write("W %s %d\n" % (" ".join(map(str, ev["i"])), ev["v"]))
                else:
                    o.write("F %d\n" % ev["v"])
            o.write("X %s ; %s\n" % (" ".join(map(str, p["empties"])), " ".join(map(str, p["wvals"]))))
            n += 1
    return n


def run(tier, seed):
    rep = Report(PROP, tier, seed)
    os.makedirs(W, exist_ok=True)
    exe = build()
    quick = tier == "quick"
    # ---- leg 1: model checking of the specification
    mcs = [("mc2d", dict(Sizes2={1, 2, 3} if quick else {1, 2, 3, 4}, Sizes3=set(), MaxSteps=3, Empties=EMP,
                         WriteVals={7}, MaxWrites=1 if quick else 0, KeepLog=False), ["Refines", "OffsetIsAccumulated"]),
           # 3D: sizes 1..3 with histories of 2 translations, sizes 1..2 with 3 (3 x 3 x 3 grids with 3 translations of 729 offsets each
           # do not finish within an hour)
           ("mc3d", dict(Sizes2=set(), Sizes3={1, 2} if quick else {1, 2, 3}, MaxSteps=2, Empties=EMP,
                         WriteVals={7}, MaxWrites=1 if quick else 0, KeepLog=False), ["Refines", "OffsetIsAccumulated"]),
           ("mchist", dict(Sizes2={1, 2, 3}, Sizes3=set() if quick else {2}, MaxSteps=2, Empties=EMP, WriteVals={7}, MaxWrites=1,
                           KeepLog=True), ["Refines", "OffsetIsAccumulated", "HistoryMeaning"])]
    if not quick:
        mcs.append(("mc3d_deep", dict(Sizes2=set(), Sizes3={1, 2}, MaxSteps=3, Empties=EMP, WriteVals={7}, MaxWrites=0, KeepLog=False),
                    ["Refines", "OffsetIsAccumulated"]))
        mcs.append(("mcwrites", dict(Sizes2={1, 2, 3}, Sizes3={1, 2}, MaxSteps=3, Empties=EMP, WriteVals={7, 8},
                                     MaxWrites=2, KeepLog=False), ["Refines", "OffsetIsAccumulated"]))
    consts = {}
    for name, c, inv in mcs:
        cfg = vlib.write_cfg("c15_" + name, c, inv, view="View")
        r = vlib.need_ok(vlib.tlc("MC_ScrollGrid.tla", cfg, workers=vlib.NCPU, coverage=True, timeout=3000, xmx="24g"), name)
        vlib.need_coverage(r, ["DoTranslate"] + (["DoWrite", "DoFill"] if c["MaxWrites"] else []), name)
        rep.add_tlc(name, r)
        consts[name] = {k: (sorted(v) if isinstance(v, set) else v) for k, v in c.items()}
        log("[C15] %s: %d distinct / %d generated, %.0fs" % (name, r.distinct, r.generated, r.wall))
    rep.extra["constants"] = consts
    # ---- leg 2: TLC-generated paths (one shortest path per reachable state), every action tried on the real object
    gens = [("gen2d", dict(Sizes2={1, 2, 3, 4}, Sizes3=set(), MaxSteps=1 if quick else 2, Empties=EMP, WriteVals={7}, MaxWrites=1,
                           KeepLog=False)),
            ("gen3d", dict(Sizes2=set(), Sizes3={1, 2} if quick else {1, 2, 3}, MaxSteps=1, Empties={900}, WriteVals={7}, MaxWrites=1, KeepLog=False))]
    if not quick:
        gens[0][1]["Sizes2"] = {1, 2, 3}
        gens.append(("gen2d4", dict(Sizes2={4}, Sizes3=set(), MaxSteps=1, Empties=EMP, WriteVals={7}, MaxWrites=1, KeepLog=False)))
    nstates = 0
    for name, c in gens:
        cfg = vlib.write_cfg("c15_" + name, c, ["EmitState"], view="View")
        paths = os.path.join(W, name + ".paths")
        r = vlib.need_ok(vlib.tlc("MC_ScrollGrid.tla", cfg, workers=1, printed_to=paths, timeout=1800), name)
        script = os.path.join(W, name + ".script")
        k = paths_to_script(paths, script)
        nstates += k
        trace = os.path.join(W, name + ".ndjson")
        vlib.run([exe, "script", script, trace], timeout=1800)
        nexec, nev, fails, nfail = vlib.validate_executions("Trace_ScrollGrid.tla", "Trace_ScrollGrid.cfg", trace, W, PROP, label=name,
                                                            chunks=vlib.NCPU, timeout=3000)
        log("[C15] %s: %d states expanded, %d events, %d failing executions" % (name, k, nev, nfail))
        rep.traces += nexec - nfail
        rep.extra.setdefault("replay", {})[name] = {"states_expanded": k, "events": nev}
        for f in fails:
            rep.violation("replay of model transition rejected after %d events; next event %s (config %s)" % (
                f["matched"], f["next_event"], f["reset"]), f["replay"])
        with open(trace) as f:
            rep.sample({"leg": "replay", "events": [json.loads(next(f)) for _ in range(4)]})
        os.remove(trace)
    # ---- leg 3: long random histories recorded from the real object
    nexec_target = 300 if quick else 4000
    trace = os.path.join(W, "random.ndjson")
    vlib.run([exe, "random", str(seed), str(nexec_target), "8", "50", trace], timeout=600)
    nexec, nev, fails, nfail = vlib.validate_executions("Trace_ScrollGrid.tla", "Trace_ScrollGrid.cfg", trace, W, PROP, label="random",
                                                        chunks=vlib.NCPU, timeout=3000)
    log("[C15] random: %d executions, %d events, %d failing" % (nexec, nev, nfail))
    rep.traces += nexec - nfail
    rep.extra["random"] = {"executions": nexec, "events": nev}
    for f in fails:
        rep.violation("recorded history rejected after %d events; next event %s (config %s)" % (
            f["matched"], f["next_event"], f["reset"]), f["replay"])
    with open(trace) as f:
        rep.sample({"leg": "random", "events": [json.loads(next(f)) for _ in range(4)]})
    os.remove(trace)
    rep.assumptions += ["element types int and std::string (a type with a real move constructor), cells reached directly and through Grid<T,DIM>&", "grid sizes <= 8 per axis in recorded histories",
                        "TLC bounds as listed under coverage.constants"]
    return rep.finish()


def replay(path, seed):
    """Re-validate one recorded execution; if it is a script-born execution the events are those
    recorded at the time - to re-execute against the current tree re-run the check."""
    ok, matched, r = vlib.validate_trace("Trace_ScrollGrid.tla", "Trace_ScrollGrid.cfg", path)
    if ok:
        print("replay accepted (%d events)" % matched)
        return 0
    print("VIOLATION property=%s replay=%s" % (PROP, path))
    print("  rejected after %d events" % matched)
    return 1
