"""C07 - least-squares solver (spec/LsqBuffers.tla)."""
import json
import os
import vlib
from vlib import Report

PROP = "C07"
W = os.path.join(vlib.BUILD, PROP)
SRCS = ["src/regression/leastsquares/LeastSquares.cpp"]


def build():
    return vlib.build("drive_lsq", ["drive_lsq.cpp"], SRCS)


def run(tier, seed, prop=PROP):
    rep = Report(prop, tier, seed)
    os.makedirs(W, exist_ok=True)
    exe = build()
    quick = tier == "quick"
    # leg 1: buffer life-cycle, every history of problems of varying sizes on one solver (estimate sizes 1..2, data sizes 1..2/3)
    vlib.mc(rep, "MC_LsqBuffers.tla", dict(Ests={1, 2}, MaxData=2 if quick else 3, Vals={0, 1, 2}, Xs={0, 1, 2}, MaxOps=6 if quick else 7),
            "mc_lsq", ["CapacityCoversData", "OnlyCurrentRows", "SameAsFresh"], view="View",
            actions=["DoSetData", "DoFill", "DoSetW", "DoEstimate", "DoWeighted"])
    # leg 2: every reachable model state that ends in an estimate, replayed on the real solver (SVD and Cholesky / weighted)
    paths = vlib.gen_paths(rep, "MC_LsqBuffers.tla", dict(Ests={1, 2}, MaxData=2 if quick else 3, Vals={0, 1, 2}, Xs={0, 1, 2}, MaxOps=6), "gen_lsq")
    sc = os.path.join(W, "gen.script")
    n = 0
    with open(sc, "w") as o:
        for line in open(paths):
            p = json.loads(line)
            o.write("R %d\n" % p["est"])
            for ev in p["path"]:
                if ev["o"] == "D":
                    o.write("D %d\n" % ev["n"])
                elif ev["o"] == "F":
                    o.write("F %d %s %d\n" % (ev["i"], " ".join(map(str, ev["j"])), ev["y"]))
                elif ev["o"] == "W":
                    o.write("W %d %d\n" % (ev["i"], ev["w"]))
                else:
                    o.write(ev["o"] + "\n")
            n += 1
    tr = os.path.join(W, "gen.ndjson")
    vlib.run([exe, "script", sc, tr], timeout=1200)
    rep.extra["replay"] = {"model_states_replayed": n}
    vlib.trace_leg(rep, "Trace_LsqBuffers.tla", "Trace_LsqBuffers.cfg", tr, "gen_lsq",
                   "shortest model path to every reachable post-estimate state, replayed on LeastSquares<float/double>")
    # leg 3: recorded histories of the real solver: sequences of problems (shrinking / growing), SVD / Cholesky / weighted, preconditioner
    tr = os.path.join(W, "lsq.ndjson")
    vlib.run([exe, "random", str(seed), str(1500 if quick else 20000), tr], timeout=1200)
    vlib.trace_leg(rep, "Trace_LsqBuffers.tla", "Trace_LsqBuffers.cfg", tr, "histories",
                   "problem sequences on one LeastSquares<float/double> object: estimate sizes 1..8, data sizes up to 500, "
                   "normal equations checked exactly on the rounded answer, covariance as cov*det = var * A adj(J^T J) A")
    rep.assumptions += ["integer problems with integer minimisers (residuals only on duplicated rows, so J^T r = 0); |entries| <= 3, |z| <= 9",
                        "answers must be within 1e-8 (double) / 2e-3 (float) of the integer minimiser; conditioning up to 1e6 is not explored",
                        "diagonal integer preconditioner; covariance clause checked for estimate sizes 1..2"]
    return rep.finish()


def replay(path, seed):
    ok, matched, r = vlib.validate_trace("Trace_LsqBuffers.tla", "Trace_LsqBuffers.cfg", path)
    if ok:
        print("replay accepted (%d events)" % matched)
        return 0
    print("VIOLATION property=%s replay=%s" % (PROP, path))
    return 1
