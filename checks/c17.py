"""C17 - rate monitor and rate check-ups (spec/RateMonitor.tla, spec/RateCheckup.tla)."""
import json
import os
import vlib
from vlib import Report

PROP = "C17"
W = os.path.join(vlib.BUILD, PROP)
SRCS = ["src/diagnostics/CheckupRate.cpp", "src/diagnostics/Diagnostic.cpp", "src/diagnostics/DiagnosticReport.cpp",
        "src/diagnostics/DiagnosticStatus.cpp", "src/monitoring/RateMonitoring.cpp"]
INV = ["Coherent", "RateIsWindowMean", "ZeroUntilFull", "QueueBounded", "ReportAgrees"]


def build():
    return vlib.build("drive_rate", ["drive_rate.cpp"], SRCS)


def script(paths, out):
    n = 0
    with open(out, "w") as o:
        for line in open(paths):
            p = json.loads(line)
            kinds = [p["kind"]] + (["mon"] if p["kind"] == "eq" and p["eps8"] == 0 else [])
            for kind in kinds:
                o.write("R %s %d %d %d\n" % (kind, p["rate8"], p["eps8"], p["T"]))
                for ev in p["path"]:
                    o.write("S %d\n" % ev["dt"] if ev["e"] == "stamp" else "H %d\n" % ev["gap"])
                o.write("X %s ; %s\n" % (" ".join(map(str, p["dts"])), " ".join(map(str, p["gaps"]))))
                n += 1
    return n


def run(tier, seed):
    rep = Report(PROP, tier, seed)
    os.makedirs(W, exist_ok=True)
    exe = build()
    quick = tier == "quick"
    kinds = {'"eq"', '"gt"'}
    # leg 1: model checking (T = 10 ticks/s; expected rates 0.5, 2, 3 Hz -> W = 4, 4, 6; ties at thresholds reachable)
    vlib.mc(rep, "MC_RateCheckup.tla", dict(Kinds=kinds, Rates8={4, 16, 24}, Eps8s={0, 4}, Ticks=10, Dts={1, 2, 10, 20, 60} if quick else {1, 2, 5, 10, 20, 60},
                                            Gaps={0, 5, 6, 60}, Extra=3 if quick else 4), "mc_rate", INV,
            actions=["DoStamp", "DoHeartBeat"])
    # leg 2: every reachable state of a smaller graph x every action, on the real objects
    paths = vlib.gen_paths(rep, "MC_RateCheckup.tla", dict(Kinds=kinds, Rates8={4}, Eps8s={0, 4}, Ticks=10,
                                                           Dts={1, 10, 20, 60} if quick else {1, 5, 10, 20, 60},
                                                           Gaps={5, 6}, Extra=1 if quick else 2), "gen_rate")
    sc = os.path.join(W, "gen.script")
    n = script(paths, sc)
    tr = os.path.join(W, "gen.ndjson")
    vlib.run([exe, "script", sc, tr], timeout=1200)
    rep.extra["replay"] = {"states_expanded": n}
    vlib.trace_leg(rep, "Trace_RateCheckup.tla", "Trace_RateCheckup.cfg", tr, "gen_rate",
                   "model state + every stamp/heartbeat replayed on RateMonitoring / CheckupRate")
    # leg 3: long random stamp/heartbeat interleavings
    tr = os.path.join(W, "random.ndjson")
    vlib.run([exe, "random", str(seed), str(2500 if quick else 40000), tr], timeout=1200)
    vlib.trace_leg(rep, "Trace_RateCheckup.tla", "Trace_RateCheckup.cfg", tr, "random",
                   "random histories up to 500 events, rates 0.5..200 Hz, periods 1 us..10 s, steady/jitter/burst/silence")
    rep.assumptions += ["time stamps are whole ticks of 1 ms (periods 1 ms..10 s) or 1 us (1 us..2 ms); expected rate and tolerance multiples of 1/8 Hz",
                        "tolerance <= half the expected rate (32-bit products in TLC)",
                        "a rate exactly on a threshold may be classified either way (double rounding of the quotient)",
                        "the check-up's rate string has 6 significant digits: compared with the model's rate to 1e-5 relative"]
    return rep.finish()


def replay(path, seed):
    ok, matched, r = vlib.validate_trace("Trace_RateCheckup.tla", "Trace_RateCheckup.cfg", path)
    if ok:
        print("replay accepted (%d events)" % matched)
        return 0
    print("VIOLATION property=%s replay=%s" % (PROP, path))
    return 1
