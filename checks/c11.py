"""C11 - pose / twist reductions, covariance embedding, SE(3) action, ellipses on exact lattices (spec/PoseCov.tla)."""
import os
import vlib
from vlib import Report

PROP = "C11"
W = os.path.join(vlib.BUILD, PROP)
SRCS = ["src/geometry/%s.cpp" % n for n in ("Pose3D", "Pose2D", "Position2D", "Position3D", "Twist3D", "Twist2D", "PoseAndTwist3D",
                                           "PoseAndTwist2D", "Ellipse")] + ["src/transform/SmartRotation3D.cpp"]


def build():
    return vlib.build("drive_pose", ["drive_pose.cpp"], SRCS)


def run(tier, seed):
    rep = Report(PROP, tier, seed)
    os.makedirs(W, exist_ok=True)
    exe = build()
    quick = tier == "quick"
    cfg = vlib.write_cfg("c11_laws", None, ["LawsHold"], init_next=("Init", "Next"))
    r = vlib.need_ok(vlib.tlc("MC_PoseCov.tla", cfg, workers=4, timeout=3000), "laws")
    rep.add_tlc("laws", r)
    tr = os.path.join(W, "pose.ndjson")
    vlib.run([exe, "random", str(seed), str(6000 if quick else 60000), tr], timeout=600)
    vlib.trace_leg(rep, "Trace_PoseCov.tla", "Trace_PoseCov.cfg", tr, "conversions",
                   "reductions on label / Gram matrices, embedding round trip, SE(3) action and composition on the yaw quarter-turn subgroup, "
                   "ellipses of Q diag(a^2,b^2) Q^T", env={"SKIPCOV": "1"})
    rep.assumptions += ["EXACT LATTICE ONLY: integer means, label and integer Gram covariances, transforms = yaw quarter turns + integer translations, "
                        "attitudes with quarter-turn roll/yaw and zero pitch, ellipse axes on lattice rotations",
                        "the propagated pose covariance is checked under C12, not here; generic covariances and transforms are not decided"]
    return rep.finish()


def replay(path, seed):
    ok, matched, r = vlib.validate_trace("Trace_PoseCov.tla", "Trace_PoseCov.cfg", path, env={"SKIPCOV": "1"})
    if ok:
        print("replay accepted (%d events)" % matched)
        return 0
    print("VIOLATION property=%s replay=%s" % (PROP, path))
    return 1
