"""C20 - bounding volumes and point-set extents (spec/Boxes.tla)."""
import os
import vlib
from vlib import Report

PROP = "C20"
W = os.path.join(vlib.BUILD, PROP)
SRCS = ["src/containers/boundingbox/AxisAlignedBoundingBox.cpp", "src/containers/boundingbox/OrientedBoundingBox.cpp",
        "src/pointset/algorithms/PointSetPreconditioner.cpp"]


def build():
    return vlib.build("drive_boxes", ["drive_boxes.cpp"], SRCS)


def run(tier, seed):
    rep = Report(PROP, tier, seed)
    os.makedirs(W, exist_ok=True)
    exe = build()
    quick = tier == "quick"
    # leg 1: the sentences of C20 over a whole bounded domain (all boxes, all lattice rotations, all points, all interval pairs, all short point sequences)
    for name, c in (("laws_2d", dict(DimC=2, CR="<- CRange", HR={0, 1, 2, 3}, PR="<- PRange")),
                    ("laws_3d", dict(DimC=3, CR="<- CRange3q", HR={0, 1}, PR="<- PRange3q") if quick else dict(DimC=3, CR="<- CRange3", HR={0, 1, 2}, PR="<- PRange3"))):
        cfg = vlib.write_cfg("c20_" + name, c, ["LawsHold"], init_next=("Init", "Next"))
        r = vlib.need_ok(vlib.tlc("MC_Boxes.tla", cfg, workers=4, timeout=3000), name)
        rep.add_tlc(name, r)
        vlib.log("[C20] %s: laws hold (%.0fs)" % (name, r.wall))
    rep.extra["laws"] = ["LawRotationsProper", "LawIntervalRoundTrip", "LawInsideAABB", "LawEnclosingTight", "LawObbContainsCorners", "LawHull", "LawExtrema"]
    # leg 2/3: calls recorded from the real classes (float/double, 2D/3D, 8 point types + array containers)
    tr = os.path.join(W, "boxes.ndjson")
    vlib.run([exe, "random", str(seed), str(6000 if quick else 60000), tr], timeout=1200)
    vlib.trace_leg(rep, "Trace_Boxes.tla", "Trace_Boxes.cfg", tr, "calls",
                   "AABB<->interval, isInside (faces/edges/corners), OBB isInside + derived AABB for lattice rotations, interval hull, "
                   "min/max/mean/scale of point sets of 1..1000 points in every octant")
    rep.assumptions += ["integer / half-integer lattices; rotations are the proper signed permutations and Pythagorean rotations (den 5, 13, 25)",
                        "for non-permutation rotations a query point exactly on a face may be classified either way (0.6, 0.8 are not exact in binary)",
                        "min/max of EigenContainers are exercised with Eigen::Array point types (they do not compile for Matrix types)"]
    return rep.finish()


def replay(path, seed):
    ok, matched, r = vlib.validate_trace("Trace_Boxes.tla", "Trace_Boxes.cfg", path)
    if ok:
        print("replay accepted (%d events)" % matched)
        return 0
    print("VIOLATION property=%s replay=%s" % (PROP, path))
    return 1
