"""C13 - grid index mapping (spec/GridIndex.tla)."""
import os
import vlib
from vlib import Report
from checks import gridcommon as gc

PROP = "C13"
W = os.path.join(vlib.BUILD, PROP)


def run(tier, seed):
    rep = Report(PROP, tier, seed)
    os.makedirs(W, exist_ok=True)
    exe = gc.build()
    quick = tier == "quick"
    lo, hi = ("<- LoSet", "<- HiSet") if quick else ("<- LoSetT", "<- HiSetT")
    # leg 1: C13 for every extent lo <= hi of the range, every even resolution, every point, exact and decimal-unit (ND) arithmetic
    for nd in (False, True):
        vlib.mc(rep, "MC_RayCast.tla", dict(Dim=2, Rs={2, 4, 6, 8}, LoRange=lo, HiRange=hi, ND=nd, MaxCasts=0),
                "mc_index_nd%d" % nd, ["ConstructorOK", "C13"], view=None, actions=[], workers=8)
    vlib.mc(rep, "MC_RayCast.tla", dict(Dim=3, Rs={2, 4}, LoRange="<- LoSet", HiRange="<- HiSet", ND=True, MaxCasts=0),
            "mc_index_3d", ["ConstructorOK", "C13"], view=None, actions=[], workers=8)
    # leg 2/3: constructor, index and centre calls recorded from GridIndexMapping<float/double,2/3>
    tr = os.path.join(W, "index.ndjson")
    vlib.run([exe, "random", str(seed), str(6000 if quick else 80000), "index", tr], timeout=1200)
    vlib.trace_leg(rep, "Trace_RayCast.tla", "Trace_RayCast.cfg", tr, "index",
                   "constructor + computeCellIndexes + computeCellCenterPosition on random extents (dyadic and decimal units, float/double, 2D/3D)")
    # leg 4: generic (non-lattice) grids, among them single-precision grids with more than a million cells along one axis: the
    # relations of C13 as residuals bounded by the specification (GenericOK)
    tr = os.path.join(W, "generic.ndjson")
    vlib.run([exe, "random", str(seed), str(3000 if quick else 60000), "generic", tr], timeout=1800)
    vlib.trace_leg(rep, "Trace_RayCast.tla", "Trace_RayCast.cfg", tr, "generic",
                   "real-valued bounds and resolutions, up to 8e6 cells (one axis up to 2.4e6 cells), float/double, 2D/3D: residuals of the C13 relations")
    rep.assumptions += ["coordinates are whole multiples of resolution/R, R in {2,4,8} (cell centres, borders, sub-cell points)",
                        "lattice legs: extents within +-1000 and <= 4e6 units per axis (float: <= 6e4 units); generic leg: any real bounds / resolutions of the quantified range, residual bound 8 roundings of the largest coordinate",
                        "decimal units: a point exactly on a cell border, or a bound that is an exact multiple of the resolution, "
                        "may be attributed to either side (binary rounding of the quotient); centres exact to 16 ulps of the largest coordinate"]
    return rep.finish()


def replay(path, seed):
    return gc.replay(PROP, path)
