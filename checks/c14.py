"""C14 - ray casting (spec/RayCast.tla on top of spec/GridIndex.tla)."""
import os
import vlib
from vlib import Report
from checks import gridcommon as gc

PROP = "C14"
W = os.path.join(vlib.BUILD, PROP)


def run(tier, seed):
    rep = Report(PROP, tier, seed)
    os.makedirs(W, exist_ok=True)
    exe = gc.build()
    quick = tier == "quick"
    # leg 1: every origin/end pair of small grids, every tie resolution, exact and ND index arithmetic, histories of casts
    mcs = [("mc_2d", dict(Dim=2, Rs={4}, LoRange={0}, HiRange={12 if quick else 16}, ND=False, MaxCasts=1)),
           ("mc_2d_nd", dict(Dim=2, Rs={2, 4}, LoRange={0, 1} if quick else {0, 1, 2}, HiRange={5} if quick else {5, 8}, ND=True, MaxCasts=1)),
           ("mc_3d", dict(Dim=3, Rs={2}, LoRange={0}, HiRange={4 if quick else 6}, ND=False, MaxCasts=1)),
           ("mc_hist", dict(Dim=2, Rs={2}, LoRange={0}, HiRange={3 if quick else 4}, ND=True, MaxCasts=3))]
    for name, c in mcs:
        vlib.mc(rep, "MC_RayCast.tla", c, name, gc.C14INV, view=None, actions=["DoSetOrigin", "DoSetEnd", "DoNext"])
    # leg 2: the same exhaustive origin/end pairs through the real RayCasting (all API paths), validated step by step
    for name, args in (("exh_2d_double", ["2", "4", "0", "12" if quick else "16", "X", "double"]),
                       ("exh_2d_float", ["2", "4", "0", "8" if quick else "16", "X", "float"]),
                       ("exh_3d_double", ["3", "2", "0", "4" if quick else "6", "X", "double"]),
                       ("exh_3d_float", ["3", "2", "0", "4", "X", "float"])):
        tr = os.path.join(W, name + ".ndjson")
        a = list(args)
        a[4] = tr
        vlib.run([exe, "exhaustive"] + a, timeout=1200)
        vlib.trace_leg(rep, "Trace_RayCast.tla", "Trace_RayCast.cfg", tr, name,
                       "every origin/end pair of a small grid cast through cast(o,e) / cast(e) / setOrigin+setEnd+next", chunks=1, timeout=3000)
    # leg 3: random rays on grids up to 2000 cells per axis, several casts per caster object
    tr = os.path.join(W, "rays.ndjson")
    vlib.run([exe, "random", str(seed), str(500 if quick else 20000), "ray", tr], timeout=1200)
    vlib.trace_leg(rep, "Trace_RayCast.tla", "Trace_RayCast.cfg", tr, "rays",
                   "random rays (generic, axis-aligned, diagonal, coincident, borders/corners/centres), casts reusing one object")
    # generic rays: decimal resolutions, grids of up to 2000 cells per axis, single and double precision, rays in high-index cells
    tr = os.path.join(W, "genericray.ndjson")
    vlib.run([exe, "random", str(seed), str(2000 if quick else 40000), "genericray", tr], timeout=1800)
    vlib.trace_leg(rep, "Trace_RayCast.tla", "Trace_RayCast.cfg", tr, "genericray",
                   "non-lattice rays on large decimal-resolution grids (float / double, 2D / 3D): start cell, end cell, face adjacency, no detour, "
                   "every cell met by the segment, against the nominal grid in double")
    rep.assumptions += ["generic leg: ray ends at least 5 % of a cell away from cell borders, boxes inflated by 0.5 % of a cell",
                        "origin and end are lattice points (multiples of resolution/R, R in {2,4,8}); |coordinates| <= 8000 units for double",
                        "float: |coordinates| <= 50 units, so that distinct crossing parameters differ by far more than the accumulated float rounding",
                        "on equal crossing parameters either axis may advance; border points follow GridIndex's border freedom with decimal units",
                        "history independence: each cast on a reused object is compared with the same cast on a fresh object (endCast.same)"]
    return rep.finish()


def replay(path, seed):
    return gc.replay(PROP, path)
