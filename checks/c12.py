"""C12 - analytic derivatives and propagated covariances on exact lattices (spec/Rot.tla, spec/PoseCov.tla, spec/LsqBuffers.tla).
Two genuine defects are recorded as known findings (known_findings.json) and recognised through their named as-coded deviations."""
import os
import vlib
from vlib import Report
from checks import c07, c10, c11

PROP = "C12"
W = os.path.join(vlib.BUILD, PROP)


def run(tier, seed):
    rep = Report(PROP, tier, seed)
    os.makedirs(W, exist_ok=True)
    quick = tier == "quick"
    for mod, name in (("MC_Rot.tla", "laws_rot"), ("MC_PoseCov.tla", "laws_posecov")):
        cfg = vlib.write_cfg("c12_" + name, None, ["LawsHold"], init_next=("Init", "Next"))
        r = vlib.need_ok(vlib.tlc(mod, cfg, workers=4, timeout=3000), name)
        rep.add_tlc(name, r)
    # (1) derivative matrices of the roll-pitch-yaw rotation on every lattice triple
    exe = c10.build()
    tr = os.path.join(W, "smart.ndjson")
    vlib.run([exe, "smart", tr], timeout=600)
    vlib.trace_leg_known(rep, "Trace_Rot.tla", "Trace_Rot.cfg", tr, "rotation_derivatives",
                         "dR/droll, dR/dpitch, dR/dyaw and dRTdAngles of SmartRotation3D against the exact derivatives",
                         "C12-smartrotation-derivative-leftover")
    tr = os.path.join(W, "smartgen.ndjson")
    vlib.run([exe, "smartgen", str(seed), str(20000 if quick else 300000), tr], timeout=600)
    vlib.trace_leg_known(rep, "Trace_Rot.tla", "Trace_Rot.cfg", tr, "rotation_derivatives_generic",
                         "derivative matrices and dRTdAngles at generic angle triples (zero angles included) against the closed-form derivatives",
                         "C12-smartrotation-derivative-leftover")
    # (2) covariance of a rigidly transformed pose = J C J^T
    exe = c11.build()
    tr = os.path.join(W, "pose.ndjson")
    vlib.run([exe, "random", str(seed), str(3000 if quick else 30000), tr], timeout=600)
    vlib.trace_leg_known(rep, "Trace_PoseCov.tla", "Trace_PoseCov.cfg", tr, "pose_covariance",
                         "covariance of Affine3d * Pose3D against J C J^T with J = blockdiag(R, I) on the yaw quarter-turn subgroup",
                         "C12-pose3d-transform-jacobian")
    # (3) covariance reported by the least-squares solver = variance * A (J^T J)^-1 A^T
    exe = c07.build()
    tr = os.path.join(W, "lsq.ndjson")
    vlib.run([exe, "random", str(seed), str(1000 if quick else 10000), tr], timeout=600)
    vlib.trace_leg(rep, "Trace_LsqBuffers.tla", "Trace_LsqBuffers.cfg", tr, "solver_covariance",
                   "LeastSquares::computeEstimateCovariance as cov * det = var * A adj(J^T J) A on integer problems (estimate sizes 1..2)")
    rep.assumptions += ["EXACT LATTICE ONLY: derivatives at lattice angle triples; pose covariance for yaw quarter-turn transforms and quarter-turn "
                        "roll/yaw attitudes with integer PSD covariances; solver covariance on integer problems with diagonal preconditioner",
                        "not decided: Jacobians at general transforms (would need finite differences - another technique)"]
    return rep.finish()


def replay(path, seed):
    first = open(path).readline() + open(path).read(4000)
    if '"smart"' in first or '"euler"' in first:
        mod = "Trace_Rot"
    elif '"est"' in first:
        mod = "Trace_LsqBuffers"
    else:
        mod = "Trace_PoseCov"
    ok, matched, r = vlib.validate_trace(mod + ".tla", mod + ".cfg", path)
    if ok:
        print("replay accepted (%d events)" % matched)
        return 0
    ok2, m2, r2 = vlib.validate_trace(mod + ".tla", mod + ".cfg", path, env={"KNOWN": "1"})
    if ok2:
        print("KNOWN-FINDING: property=C12 the recorded execution is explained by a listed as-coded deviation")
        return 0
    print("VIOLATION property=%s replay=%s" % (PROP, path))
    return 1
