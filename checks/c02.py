"""C02 - local tangent frame (spec/EnuFrame.tla)."""
import os
import vlib
from vlib import Report

PROP = "C02"
W = os.path.join(vlib.BUILD, PROP)
SRCS = ["src/geodesy/ENUConverter.cpp", "src/geodesy/ECEFConverter.cpp", "src/geodesy/EarthEllipsoid.cpp",
        "src/geodesy/GeodeticCoordinates.cpp", "src/geodesy/WGS84Coordinates.cpp"]


def build():
    return vlib.build("drive_enu", ["drive_enu.cpp"], SRCS)


def run(tier, seed):
    rep = Report(PROP, tier, seed)
    os.makedirs(W, exist_ok=True)
    exe = build()
    quick = tier == "quick"
    # leg 1: every lattice frame (7 latitudes x 9 longitudes x heights) x every call sequence: rigid right-handed triad, inverse, isometry
    vlib.mc(rep, "MC_EnuFrame.tla", dict(Heights={0, 9000}, MaxOps=3 if quick else 4, Probe="<- ProbeSet"), "mc_enu", ["Laws"], view=None,
            actions=["DoSetAnchor", "DoReset", "DoToEnuGeo"])
    # leg 3: recorded histories of the real converter (construct / setAnchor / reset / self-anchoring / all conversions)
    tr = os.path.join(W, "enu.ndjson")
    vlib.run([exe, "random", str(seed), str(8000 if quick else 120000), tr], timeout=1200)
    vlib.trace_leg(rep, "Trace_EnuFrame.tla", "Trace_EnuFrame.cfg", tr, "histories",
                   "construct / setAnchor / reset / self-anchoring histories; toECEF against the exact east-north-up triad, toENU, toWGS84 on the "
                   "vertical, geodetic round trips, frame origin on the equator")
    rep.assumptions += ["anchors with lattice latitude and longitude (cos, sin rational: 0, +-90, 180/-180 deg and Pythagorean angles), |lat| <= 73.8 deg",
                        "the anchor's ECEF position is an observation except on the equator (its formula is property C01, not decided by this family)",
                        "local points are integer metres within 100 km / 10 km; tolerance 1 mm as in the property"]
    return rep.finish()


def replay(path, seed):
    ok, matched, r = vlib.validate_trace("Trace_EnuFrame.tla", "Trace_EnuFrame.cfg", path)
    if ok:
        print("replay accepted (%d events)" % matched)
        return 0
    print("VIOLATION property=%s replay=%s" % (PROP, path))
    return 1
