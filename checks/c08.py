"""C08 - kd-tree nearest-neighbour queries (spec/NearestNeighbour.tla)."""
import os
import vlib
from vlib import Report

PROP = "C08"
W = os.path.join(vlib.BUILD, PROP)
SRCS = ["src/pointset/KdTree.cpp"]


def build():
    return vlib.build("drive_kdtree", ["drive_kdtree.cpp"], SRCS)


def run(tier, seed):
    rep = Report(PROP, tier, seed)
    os.makedirs(W, exist_ok=True)
    exe = build()
    quick = tier == "quick"
    # leg 1: laws of the relational specification over every multiset of <= 3 points on a 3x3 lattice, every query on 4x4, every k
    cfg = vlib.write_cfg("c08_laws", dict(Coords={0, 1, 2}, QCoords={0, 1, 2, 3}, MaxN=3), ["LawsHold"], init_next=("Init", "Next"))
    r = vlib.need_ok(vlib.tlc("MC_NearestNeighbour.tla", cfg, workers=4, timeout=3000), "laws")
    rep.add_tlc("laws", r)
    # leg 2: the same small multisets (2D 3x3, 3D 2x2x2), all queries, all k, all eight point types, through the real kd-tree
    tr = os.path.join(W, "small.ndjson")
    vlib.run([exe, "small", tr], timeout=1200)
    vlib.trace_leg(rep, "Trace_NearestNeighbour.tla", "Trace_NearestNeighbour.cfg", tr, "small",
                   "every sequence of 1..3 lattice points (ties, duplicates), every lattice query, every k, eight point types")
    # leg 3: random sets up to 5000 points (uniform, clustered, collinear/coplanar, duplicates, tiny lattices), k <= 50
    tr = os.path.join(W, "random.ndjson")
    vlib.run([exe, "random", str(seed), str(250 if quick else 3000), "5000", tr], timeout=1200)
    vlib.trace_leg(rep, "Trace_NearestNeighbour.tla", "Trace_NearestNeighbour.cfg", tr, "random",
                   "random integer point sets of 1..5000 points, queries inside / far outside / on data points, k up to min(n, 50)")
    rep.assumptions += ["integer coordinates, |coordinate| <= 1000 (squared distances exact in float, < 2^31 for TLC)",
                        "the oracle is exhaustive search evaluated by TLC; ties may be resolved either way"]
    return rep.finish()


def replay(path, seed):
    ok, matched, r = vlib.validate_trace("Trace_NearestNeighbour.tla", "Trace_NearestNeighbour.cfg", path)
    if ok:
        print("replay accepted (%d events)" % matched)
        return 0
    print("VIOLATION property=%s replay=%s" % (PROP, path))
    return 1
