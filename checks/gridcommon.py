"""Shared pieces of C13 (GridIndex) and C14 (RayCast): one driver, one trace spec."""
import os
import vlib

SRCS = ["src/containers/grid/GridIndexMapping.cpp", "src/containers/grid/RayTracing.cpp"]
C14INV = ["ConstructorOK", "CellsInGrid", "CellsOnSegment", "StartsAtOrigin", "EndsAtEnd", "CanAlwaysStep"]


def build():
    return vlib.build("drive_grid", ["drive_grid.cpp"], SRCS)


def replay(prop, path):
    ok, matched, r = vlib.validate_trace("Trace_RayCast.tla", "Trace_RayCast.cfg", path)
    if ok:
        print("replay accepted (%d events)" % matched)
        return 0
    print("VIOLATION property=%s replay=%s" % (prop, path))
    return 1
