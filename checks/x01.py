"""X01 - specification growth beyond the listed properties (spec/Extras.tla): PID integrator state machine, first-order
Butterworth filter, one-to-one correspondence filtering, duration conversions.  Not attached to a property id: a rejection
is reported as 'EXTRA-REJECTION', exit 3, never as a VIOLATION line."""
import os
import vlib
from vlib import Report

W = os.path.join(vlib.BUILD, "X01")
SRCS = ["src/control/PID.cpp", "src/signal/FirstOrderButterworth.cpp", "src/pointset/algorithms/Correspondence.cpp",
        "src/regression/ransac/Ransac.cpp", "src/regression/ransac/RansacIterations.cpp", "src/regression/ransac/RansacModel.cpp",
        "src/regression/leastsquares/NLSE.cpp", "src/regression/leastsquares/LeastSquares.cpp",
        "src/regression/leastsquares/MEstimator.cpp"]


PIPE_SRCS = ["src/transform/estimation/FindRigidTransformationBySVD.cpp", "src/transform/estimation/FindRigidTransformationByLeastSquares.cpp",
             "src/transform/estimation/FindRigidTransformationByICP.cpp", "src/transform/estimation/RansacRigidTransformationModel.cpp",
             "src/regression/leastsquares/LeastSquares.cpp", "src/pointset/algorithms/PreconditionedPointSet.cpp",
             "src/pointset/algorithms/PointSetPreconditioner.cpp", "src/pointset/algorithms/Correspondence.cpp",
             "src/pointset/algorithms/NormalAndCurvatureEstimation.cpp", "src/pointset/KdTree.cpp",
             "src/regression/ransac/Ransac.cpp", "src/regression/ransac/RansacIterations.cpp", "src/regression/ransac/RansacModel.cpp",
             "src/regression/ransac/RansacRandomCorrespondences.cpp"]


def run(tier, seed):
    os.makedirs(W, exist_ok=True)
    exe = vlib.build("drive_extras", ["drive_extras.cpp"], SRCS)
    tr = os.path.join(W, "extras.ndjson")
    vlib.run([exe, "random", str(seed), str(2000 if tier == "quick" else 40000), tr], timeout=1200)
    nexec, nev, fails, nfail = vlib.validate_executions("Trace_Extras.tla", "Trace_Extras.cfg", tr, W, "X01", label="extras")
    print("[X01] %d executions, %d events, %d rejected" % (nexec, nev, nfail))
    for f in fails:
        print("EXTRA-REJECTION module=Extras replay=%s after %d events; next %s" % (f["replay"], f["matched"], f["next_event"][:300]))
    os.remove(tr)
    # registration pipelines above the estimators of C04 / C05: RANSAC with wrong correspondences mixed in, ICP from a displaced guess
    pexe = vlib.build("drive_pipeline", ["drive_pipeline.cpp"], PIPE_SRCS)
    tr2 = os.path.join(W, "pipeline.ndjson")
    pr = vlib.run([pexe, "random", str(seed), str(400 if tier == "quick" else 6000), tr2], timeout=1800)
    print("[X01] pipeline:", pr.stdout.strip())
    w = pr.stdout.split()
    tried, failed = int(w[2]), int(w[4])
    nexec2, nev2, fails2, nfail2 = vlib.validate_executions("Trace_RigidFit.tla", "Trace_RigidFit.cfg", tr2, W, "X01", label="pipeline")
    print("[X01] pipeline: %d executions, %d events, %d rejected" % (nexec2, nev2, nfail2))
    for f in fails2:
        print("EXTRA-REJECTION module=RigidFit (pipeline) replay=%s after %d events; next %s" % (f["replay"], f["matched"], f["next_event"][:300]))
    if failed * 5 > tried:
        print("EXTRA-REJECTION module=RigidFit (pipeline): RANSAC found no consensus in %d of %d instances with at most 30%% wrong correspondences" % (failed, tried))
        nfail2 += 1
    os.remove(tr2)
    return 3 if nfail or nfail2 else 0


def replay(path, seed):
    ok, matched, r = vlib.validate_trace("Trace_Extras.tla", "Trace_Extras.cfg", path)
    print("accepted" if ok else "rejected after %d events" % matched)
    return 0 if ok else 3
