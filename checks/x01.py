"""X01 - specification growth beyond the listed properties (spec/Extras.tla): PID integrator state machine, first-order
Butterworth filter, one-to-one correspondence filtering, duration conversions.  Not attached to a property id: a rejection
is reported as 'EXTRA-REJECTION', exit 3, never as a VIOLATION line."""
import os
import vlib
from vlib import Report

W = os.path.join(vlib.BUILD, "X01")
SRCS = ["src/control/PID.cpp", "src/signal/FirstOrderButterworth.cpp", "src/pointset/algorithms/Correspondence.cpp",
        "src/regression/ransac/Ransac.cpp", "src/regression/ransac/RansacIterations.cpp", "src/regression/ransac/RansacModel.cpp",
        "src/regression/leastsquares/NLSE.cpp", "src/regression/leastsquares/LeastSquares.cpp"]


def run(tier, seed):
    os.makedirs(W, exist_ok=True)
    exe = vlib.build("drive_extras", ["drive_extras.cpp"], SRCS)
    tr = os.path.join(W, "extras.ndjson")
    vlib.run([exe, "random", str(seed), str(2000 if tier == "quick" else 40000), tr], timeout=1200)
    nexec, nev, fails, nfail = vlib.validate_executions("Trace_Extras.tla", "Trace_Extras.cfg", tr, W, "X01", label="extras")
    print("[X01] %d executions, %d events, %d rejected" % (nexec, nev, nfail))
    for f in fails:
        print("EXTRA-REJECTION module=Extras replay=%s after %d events; next %s" % (f["replay"], f["matched"], f["next_event"][:300]))
    os.remove(tr)
    return 3 if nfail else 0


def replay(path, seed):
    ok, matched, r = vlib.validate_trace("Trace_Extras.tla", "Trace_Extras.cfg", path)
    print("accepted" if ok else "rejected after %d events" % matched)
    return 0 if ok else 3
