"""C18 - check-up thresholds and status algebra (spec/Checkup.tla, spec/StatusLattice.tla)."""
import json
import os
import vlib
from vlib import Report

PROP = "C18"
W = os.path.join(vlib.BUILD, PROP)
SRCS = ["src/diagnostics/CheckupReliability.cpp", "src/diagnostics/Diagnostic.cpp", "src/diagnostics/DiagnosticReport.cpp",
        "src/diagnostics/DiagnosticStatus.cpp"]


def build():
    return vlib.build("drive_checkup", ["drive_checkup.cpp"], SRCS)


def script(paths, out):
    n = 0
    with open(out, "w") as o:
        for line in open(paths):
            p = json.loads(line)
            ini = {"stale": -1, "custom0": 0, "custom1": 1, "custom2": 2, "custom3": 3}[p.get("ini", "stale")]
            o.write("R %s %d %d %d %d\n" % (p["kind"], p["a"], p["b"], p["near"], ini))
            for ev in p["path"]:
                o.write("E %d %d\n" % (ev["k"], ev["ulp"]) if ev["e"] == "evaluate" else "T\n")
            o.write("X\n")
            n += 1
    return n


def run(tier, seed):
    rep = Report(PROP, tier, seed)
    os.makedirs(W, exist_ok=True)
    exe = build()
    quick = tier == "quick"
    consts = dict(Kinds={'"eq"', '"gt"', '"lt"', '"rel"'}, As={0, 1, 2, 5} if quick else {0, 1, 2, 3, 5, 8},
                  Bs={0, 1, 3, 5} if quick else {0, 1, 2, 3, 5, 8}, Near=2 if quick else 3)
    # leg 1: thresholds (all values within Near of every threshold, 3 ulp positions), histories, and the lattice laws (ASSUME Laws)
    vlib.mc(rep, "MC_Checkup.tla", consts, "mc_checkup", ["Coherent", "ReturnedIsStored", "ThresholdMeaning"],
            actions=["DoEvaluate", "DoTimeout"])
    # leg 2: every reachable model state, every action, on the real check-ups
    gc = dict(consts)
    if quick:
        gc.update(As={0, 2}, Bs={0, 1, 3})
    else:
        gc.update(As={0, 1, 2, 5}, Bs={0, 1, 3, 5}, Near=2)
    paths = vlib.gen_paths(rep, "MC_Checkup.tla", gc, "gen_checkup")
    sc = os.path.join(W, "gen.script")
    n = script(paths, sc)
    tr = os.path.join(W, "gen.ndjson")
    vlib.run([exe, "script", sc, tr], timeout=1200)
    rep.extra["replay"] = {"states_expanded": n}
    vlib.trace_leg(rep, "Trace_Checkup.tla", "Trace_Checkup.cfg", tr, "gen_checkup",
                   "model state + every evaluate/timeout replayed on the real check-up")
    # leg 3: random histories with large thresholds, exhaustive status pairs/triples, random lists and report appends
    tr = os.path.join(W, "random.ndjson")
    vlib.run([exe, "random", str(seed), str(3000 if quick else 60000), tr], timeout=1200)
    vlib.trace_leg(rep, "Trace_Checkup.tla", "Trace_Checkup.cfg", tr, "random",
                   "random evaluate/timeout histories; worse on all pairs/triples; worseStatus/allOK/+= on lists up to 20")
    rep.assumptions += ["T = double; |values| < 1e5 so that the printed info is a plain integer",
                        "thresholds are integers; 'one ulp on either side' realised with nextafter",
                        "lattice laws checked in the model for all pairs/triples and all lists up to length 4"]
    return rep.finish()


def replay(path, seed):
    ok, matched, r = vlib.validate_trace("Trace_Checkup.tla", "Trace_Checkup.cfg", path)
    if ok:
        print("replay accepted (%d events)" % matched)
        return 0
    print("VIOLATION property=%s replay=%s" % (PROP, path))
    return 1
