"""C04 / C05 - rigid registration on exact lattices (spec/RigidFit.tla)."""
import os
import vlib
from vlib import Report

SRCS = ["src/transform/estimation/FindRigidTransformationBySVD.cpp", "src/transform/estimation/FindRigidTransformationByLeastSquares.cpp",
        "src/regression/leastsquares/LeastSquares.cpp", "src/pointset/algorithms/PreconditionedPointSet.cpp",
        "src/pointset/algorithms/PointSetPreconditioner.cpp", "src/pointset/algorithms/Correspondence.cpp"]


def build():
    return vlib.build("drive_rigid", ["drive_rigid.cpp"], SRCS)


def run_which(prop, which, what, assumptions, tier, seed):
    rep = Report(prop, tier, seed)
    W = os.path.join(vlib.BUILD, prop)
    os.makedirs(W, exist_ok=True)
    exe = build()
    quick = tier == "quick"
    cfg = vlib.write_cfg(prop.lower() + "_laws", None, ["LawsHold"], init_next=("Init", "Next"))
    r = vlib.need_ok(vlib.tlc("MC_RigidFit.tla", cfg, workers=4, timeout=3000), "laws")
    rep.add_tlc("laws", r)
    tr = os.path.join(W, which + ".ndjson")
    vlib.run([exe, "random", str(seed), str(6000 if quick else 80000), which, tr], timeout=1200)
    vlib.trace_leg(rep, "Trace_RigidFit.tla", "Trace_RigidFit.cfg", tr, which, what)
    rep.assumptions += assumptions
    return rep.finish()


def run(tier, seed):
    return run_which("C04", "svd",
                     "exact correspondences of lattice motions (2D: 14 rotations; 3D: 24 signed permutations and their products with Pythagorean "
                     "axis rotations; integer translations), 3..500 points incl. coplanar and clustered sets, identity / permuted / subset "
                     "correspondences, with and without scale preconditioning, eight point types, four find() overloads",
                     ["EXACT LATTICE ONLY: noise-free correspondences of lattice motions; recovered motion compared to 1e-9 (double) / 1e-3 (float)",
                      "isotropic preconditioning = a common scale factor on both sets",
                      "not decided: least-squares optimality under noise, near-degenerate conditioning"], tier, seed)


def replay(path, seed, prop="C04"):
    ok, matched, r = vlib.validate_trace("Trace_RigidFit.tla", "Trace_RigidFit.cfg", path)
    if ok:
        print("replay accepted (%d events)" % matched)
        return 0
    print("VIOLATION property=%s replay=%s" % (prop, path))
    return 1
