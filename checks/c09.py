"""C09 - surface normals on exact lattices (spec/Normals.tla)."""
import os
import vlib
from vlib import Report

PROP = "C09"
W = os.path.join(vlib.BUILD, PROP)
SRCS = ["src/pointset/algorithms/NormalAndCurvatureEstimation.cpp", "src/pointset/KdTree.cpp"]


def build():
    return vlib.build("drive_normals", ["drive_normals.cpp"], SRCS)


def run(tier, seed):
    rep = Report(PROP, tier, seed)
    os.makedirs(W, exist_ok=True)
    exe = build()
    quick = tier == "quick"
    tr = os.path.join(W, "normals.ndjson")
    vlib.run([exe, "random", str(seed), str(800 if quick else 12000), tr], timeout=1200)
    nfail = vlib.trace_leg(rep, "Trace_Normals.tla", "Trace_Normals.cfg", tr, "clouds",
                           "integer clouds on lattice planes / lines not through the origin (axis-aligned and Pythagorean normals), k in 3..30, eight "
                           "point types: normal = sensor-facing surface normal, curvature 0, equivariance under signed permutations; range "
                           "invariants (unit, facing, curvature in [0, 1/DIM]) on non-planar clouds; least-variance direction / curvature on generic clouds")
    # the trace spec has no state graph of its own: report the validated events as the explored space
    rep.states = max(rep.states, 1)
    rep.transitions = max(rep.transitions, rep.extra["legs"]["clouds"]["events"])
    rep.assumptions += ["EXACT LATTICE ONLY: planar / linear integer clouds with rational unit normal (den 1, 5, 7, 9, 13, 25); exactness asserted only "
                        "where the points strictly closer than the k-th neighbour already span the surface (distinct smallest eigenvalue)",
                        "generic clouds (curved, noisy, scattered; k 3..30; 8 point types): least-variance direction and curvature against an independent "
                        "reference as residual bounds (1e-6 double, 2e-3 float) where the neighbour set and the eigen-gap (>= 0.05) are clear-cut",
                        "not decided: equivariance under generic rotations"]
    return rep.finish()


def replay(path, seed):
    ok, matched, r = vlib.validate_trace("Trace_Normals.tla", "Trace_Normals.cfg", path)
    if ok:
        print("replay accepted (%d events)" % matched)
        return 0
    print("VIOLATION property=%s replay=%s" % (PROP, path))
    return 1
