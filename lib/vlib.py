"""Common machinery of the /verif checks: build cache, TLC runner, trace validation,
evidence writer, known-findings handling.  Pure python3 standard library."""
import concurrent.futures as cf
import hashlib
import json
import os
import re
import shutil
import subprocess
import sys
import time

ROOT = os.path.dirname(os.path.dirname(os.path.abspath(__file__)))
REPO = os.environ.get("VERIF_REPO", "/repo")
SPEC = os.path.join(ROOT, "spec")
HARNESS = os.path.join(ROOT, "harness")
BUILD = os.environ.get("VERIF_BUILD", os.path.join(ROOT, "build"))
EVID = os.environ.get("VERIF_EVID", os.path.join(ROOT, "evidence"))
REPLAY = os.path.join(EVID, "replay")
JAR = "/opt/veriftools/tla/tla2tools.jar:/opt/veriftools/tla/CommunityModules-deps.jar"
NCPU = os.cpu_count() or 4


class Infra(Exception):
    """Failure of the machinery itself (exit 2, never a VIOLATION)."""


class Hang(Exception):
    """A driver running the implementation did not return within a timeout far above its normal run time: the code under test
    stopped making progress (deadlock, endless loop).  Reported as a violation of the property the driver exercises."""

    def __init__(self, cmd, timeout):
        Exception.__init__(self, "no progress within %ss: %s" % (timeout, " ".join(map(str, cmd))))
        self.cmd, self.timeout = [str(c) for c in cmd], timeout


def log(*a):
    print(*a, flush=True)


def sha(*parts):
    h = hashlib.sha256()
    for p in parts:
        h.update(p if isinstance(p, bytes) else str(p).encode())
        h.update(b"\0")
    return h.hexdigest()[:16]


def file_sha(path):
    with open(path, "rb") as f:
        return hashlib.sha256(f.read()).hexdigest()


_tree_cache = {}


def tree_sha(d):
    if d in _tree_cache:
        return _tree_cache[d]
    h = hashlib.sha256()
    for base, dirs, files in sorted(os.walk(d)):
        dirs.sort()
        for f in sorted(files):
            p = os.path.join(base, f)
            h.update(os.path.relpath(p, d).encode())
            h.update(file_sha(p).encode())
    _tree_cache[d] = h.hexdigest()[:16]
    return _tree_cache[d]


# ----------------------------------------------------------------------------- build

def _compile_one(cxx, src, obj, flags):
    if os.path.exists(obj):
        return None
    os.makedirs(os.path.dirname(obj), exist_ok=True)
    tmp = obj + ".tmp%d.o" % os.getpid()
    cmd = [cxx] + flags + ["-c", src, "-o", tmp]
    r = subprocess.run(cmd, capture_output=True, text=True)
    if r.returncode != 0:
        return "compile failed: %s\n%s" % (" ".join(cmd), r.stderr[-4000:])
    os.replace(tmp, obj)
    return None


def build(name, harness_srcs, repo_srcs=(), flags=(), ldflags=(), cxx="g++", opt="-O2"):
    """Compile harness sources (relative to /verif/harness) with the listed repo sources
    (relative to REPO) from the *current working tree*.  Objects are cached by a content
    hash of the translation unit, the whole include tree and the flags."""
    t0 = time.time()
    inc = tree_sha(os.path.join(REPO, "include"))
    hinc = tree_sha(HARNESS)
    base = [opt, "-std=c++17", "-g0", "-I" + os.path.join(REPO, "include"), "-isystem", "/usr/include/eigen3",
            "-I" + HARNESS, "-DROMEA_CORE_COMMON_VERIF", "-pthread"] + list(flags)
    objs, jobs = [], []
    for rel, root in [(s, HARNESS) for s in harness_srcs] + [(s, REPO) for s in repo_srcs]:
        src = os.path.join(root, rel)
        if not os.path.exists(src):
            raise Infra("source missing: " + src)
        key = sha(cxx, " ".join(base), file_sha(src), inc, hinc if root == HARNESS else "")
        obj = os.path.join(BUILD, "obj", key + ".o")
        objs.append(obj)
        jobs.append((cxx, src, obj, base))
    with cf.ThreadPoolExecutor(NCPU) as ex:
        for err in ex.map(lambda j: _compile_one(*j), jobs):
            if err:
                raise Infra(err)
    exe = os.path.join(BUILD, "bin", name + "-" + sha(*objs, " ".join(ldflags)))
    if not os.path.exists(exe):
        os.makedirs(os.path.dirname(exe), exist_ok=True)
        cmd = [cxx] + objs + ["-o", exe + ".tmp", "-pthread"] + [f for f in flags if f.startswith("-fsanitize")] + list(ldflags)
        r = subprocess.run(cmd, capture_output=True, text=True)
        if r.returncode != 0:
            raise Infra("link failed: %s\n%s" % (" ".join(cmd), r.stderr[-4000:]))
        os.replace(exe + ".tmp", exe)
    log("[build] %s (%.1fs)" % (os.path.basename(exe), time.time() - t0))
    return exe


def run(cmd, timeout=600, env=None, stdout=None, cwd=None, check=True):
    e = dict(os.environ)
    if env:
        e.update({k: str(v) for k, v in env.items()})
    try:
        r = subprocess.run(cmd, capture_output=(stdout is None), stdout=stdout, stderr=(subprocess.PIPE if stdout is not None else None),
                           text=True, timeout=timeout, env=e, cwd=cwd)
    except subprocess.TimeoutExpired:
        if str(cmd[0]).startswith(os.path.join(BUILD, "bin") + os.sep):
            raise Hang(cmd, timeout)
        raise Infra("timeout after %ss: %s" % (timeout, " ".join(map(str, cmd))))
    if check and r.returncode != 0:
        raise Infra("command failed (%d): %s\n%s" % (r.returncode, " ".join(map(str, cmd)), (r.stderr or "")[-3000:]))
    return r


# ----------------------------------------------------------------------------- TLC

import itertools
import threading
_tlc_n = itertools.count(1)
_tlc_lock = threading.Lock()


class TlcResult:
    def __init__(self):
        self.rc = None
        self.out = ""
        self.generated = 0
        self.distinct = 0
        self.depth = 0
        self.violated = None       # name of violated invariant / property / "postcondition" / "assumption"
        self.error = None          # infrastructure-level error text
        self.coverage = {}         # action name -> (taken, generated)
        self.printed = []          # decoded PrintT(ToJson(..)) lines
        self.wall = 0.0

    @property
    def ok(self):
        return self.rc == 0 and not self.violated and not self.error


def tlc(module, cfg, workers=1, timeout=900, env=None, simulate=None, depth=None, coverage=False,
        seed=None, xmx="8g", deque=False, printed_to=None, cwd=SPEC, extra=()):
    """Run TLC on spec/<module>.tla with spec/<cfg>; returns TlcResult."""
    with _tlc_lock:
        k = next(_tlc_n)
    meta = os.path.join(BUILD, "tlc", "%s-%d-%d" % (os.path.basename(cfg), os.getpid(), k))
    shutil.rmtree(meta, ignore_errors=True)
    os.makedirs(meta, exist_ok=True)
    java = ["java", "-XX:+UseParallelGC", "-Xmx" + xmx, "-Xss64m"]
    if deque:
        java.append("-Dtlc2.tool.queue.IStateQueue=StateDeque")
    cmd = java + ["-cp", JAR, "tlc2.TLC", "-workers", str(workers), "-metadir", meta, "-checkpoint", "0", "-config", cfg]
    if simulate:
        cmd += ["-simulate", "num=%d" % simulate]
    if depth:
        cmd += ["-depth", str(depth)]
    if seed is not None:
        cmd += ["-seed", str(seed)]
    if coverage:
        cmd += ["-coverage", "1"]
    cmd += list(extra) + [module]
    e = dict(os.environ)
    if env:
        e.update({k: str(v) for k, v in env.items()})
    t0 = time.time()
    res = TlcResult()
    outpath = os.path.join(meta, "stdout.txt")
    try:
        with open(outpath, "w") as fo:
            p = subprocess.run(cmd, stdout=fo, stderr=subprocess.STDOUT, text=True, timeout=timeout, env=e, cwd=cwd)
        res.rc = p.returncode
    except subprocess.TimeoutExpired:
        res.rc = -9
        res.error = "TLC timeout after %ss" % timeout
    res.wall = time.time() - t0
    pf = open(printed_to, "w") if printed_to else None
    tail = []
    with open(outpath) as f:
        for line in f:
            if line.startswith('"') and line.rstrip().endswith('"'):
                # PrintT(ToJson(x)) prints a quoted, escaped JSON string
                try:
                    s = json.loads(line)
                    if pf:
                        pf.write(s + "\n")
                    else:
                        res.printed.append(json.loads(s))
                    continue
                except Exception:
                    pass
            tail.append(line)
            if len(tail) > 4000:
                del tail[:2000]
    if pf:
        pf.close()
    out = "".join(tail)
    res.out = out
    m = re.findall(r"(\d+) states generated, (\d+) distinct states found", out)
    if m:
        res.generated, res.distinct = int(m[-1][0]), int(m[-1][1])
    m = re.search(r"The depth of the complete state graph search is (\d+)", out)
    if m:
        res.depth = int(m.group(1))
    m = re.search(r"Invariant (\S+) is violated", out)
    if m:
        res.violated = m.group(1)
    elif re.search(r"Postcondition \S+ .*is false", out):
        res.violated = "postcondition"
    elif re.search(r"Assumption .*? is false", out, re.S):
        res.violated = "assumption:" + re.search(r"Assumption (.*?) is false", out, re.S).group(1).strip()[:120]
    elif re.search(r"Action property (\S+) is violated", out):
        res.violated = re.search(r"Action property (\S+) is violated", out).group(1)
    elif "Temporal properties were violated" in out:
        res.violated = "temporal"
    elif "Deadlock reached" in out:
        res.violated = "deadlock"
    if res.rc not in (0, 10, 11, 12, 13) and not res.violated and not res.error:
        res.error = "TLC failed rc=%s: %s" % (res.rc, out[-1500:])
    if res.rc != 0 and not res.violated and not res.error:
        res.error = "TLC rc=%s: %s" % (res.rc, out[-1500:])
    for m in re.finditer(r"^<(\w+) line \d+, col \d+ to line \d+, col \d+ of module (\w+)(?: \([\d ]+\))?>: (\d+):(\d+)", out, re.M):
        a = m.group(1)
        t, g = int(m.group(3)), int(m.group(4))
        o = res.coverage.get(a, (0, 0))
        res.coverage[a] = (o[0] + t, o[1] + g)
    shutil.rmtree(os.path.join(meta), ignore_errors=True) if res.ok else None
    return res


def need_ok(res, what):
    """MC of the spec itself: a failure here is a spec/infrastructure problem, not a code violation."""
    if res.error:
        raise Infra("%s: %s" % (what, res.error))
    if res.violated:
        raise Infra("%s: spec-level property %s violated in the model\n%s" % (what, res.violated, res.out[-3000:]))
    return res


def need_coverage(res, actions, what):
    miss = [a for a in actions if res.coverage.get(a, (0, 0))[1] == 0]   # (new distinct, generated)
    if miss:
        raise Infra("%s: vacuity - actions never taken: %s" % (what, miss))


# ----------------------------------------------------------------------------- traces

def split_executions(path, reset_key="e", reset_val="Reset"):
    """Return list of (start_line_index, [raw lines]) per execution (each starts with a Reset line)."""
    execs = []
    with open(path) as f:
        for i, line in enumerate(f):
            if not line.strip():
                continue
            if ('"%s":"%s"' % (reset_key, reset_val)) in line.replace(" ", "")[:60] or not execs:
                execs.append([])
            execs[-1].append(line)
    return execs


def validate_trace(module, cfg, trace_path, timeout=900, xmx="4g", deque=False, env=None):
    """TLC trace validation.  Returns (accepted, matched_lines, TlcResult)."""
    n = sum(1 for l in open(trace_path) if l.strip())
    e = {"TRACE": trace_path, "KNOWN": "0", "SKIPCOV": "0"}
    if env:
        e.update(env)
    r = tlc(module, cfg, workers=1, timeout=timeout, env=e, xmx=xmx, deque=deque)
    if r.error and "Overflow when computing" in (r.out or ""):
        # a recorded value took the specification's arithmetic out of TLC's 32-bit integers.  The drivers keep every value of a
        # conforming implementation inside that range (flagging what they cannot project), so the line that overflows is a line
        # the specification cannot explain: a rejection at that depth, not a failure of the machinery.
        m = re.findall(r"^State (\d+):", r.out, re.M)
        d = int(m[-1]) - 1 if m else max(r.depth - 1, 0)
        r.violated = "overflow: recorded values outside the range the specification evaluates"
        return False, d, r
    if r.error:
        raise Infra("trace validation %s on %s: %s" % (module, trace_path, r.error))
    if r.violated and r.violated != "postcondition":
        # an invariant of the trace spec was violated on the way: report as rejection at that depth
        m = re.findall(r"^State (\d+):", r.out, re.M)
        d = int(m[-1]) - 1 if m else r.depth
        return False, d, r
    matched = max(r.depth - 1, 0)
    return (r.rc == 0 and not r.violated and matched == n), matched, r


def validate_executions(module, cfg, trace_path, workdir, prop, chunks=None, timeout=900, xmx="3g", label="trace", deque=False, env=None):
    """Split a concatenated trace into chunks of whole executions, validate them in parallel,
    isolate the failing executions, re-run each alone and return
    (n_executions, n_events, [failure dicts with replay path])."""
    execs = split_executions(trace_path)
    nexec = len(execs)
    nev = sum(len(x) for x in execs)
    chunks = chunks or min(NCPU, max(1, nev // 20000 + 1))
    per = (nexec + chunks - 1) // chunks
    groups = [execs[i:i + per] for i in range(0, nexec, per)]
    os.makedirs(workdir, exist_ok=True)
    failures = []

    def do(gi):
        g = groups[gi]
        bad = []
        while g:
            p = os.path.join(workdir, "%s-chunk%d.ndjson" % (label, gi))
            with open(p, "w") as f:
                for x in g:
                    f.writelines(x)
            ok, matched, r = validate_trace(module, cfg, p, timeout=timeout, xmx=xmx, deque=deque, env=env)
            if ok:
                break
            # locate the execution containing line matched+1
            tot = 0
            k = 0
            for k, x in enumerate(g):
                if tot + len(x) > matched:
                    break
                tot += len(x)
            bad.append((g[k], matched - tot))
            g = g[k + 1:]
            if len(bad) >= 2:      # enough to report; the rest of this chunk stays unexamined
                break
        return bad

    with cf.ThreadPoolExecutor(min(NCPU, len(groups))) as ex:
        for bad in ex.map(do, range(len(groups))):
            for x, at in bad:
                failures.append((x, at))
    out = []
    os.makedirs(REPLAY, exist_ok=True)
    for n, (x, at) in enumerate(failures[:6]):
        rp = os.path.join(REPLAY, "%s-%s-%d.ndjson" % (prop, label, n))
        with open(rp, "w") as f:
            f.writelines(x)
        ok, matched, r = validate_trace(module, cfg, rp, timeout=timeout, xmx=xmx, deque=deque, env=env)
        if not ok:  # rejection repeats on the single execution
            nxt = x[matched].strip() if matched < len(x) else ""
            out.append({"replay": rp, "matched": matched, "next_event": nxt[:600], "reset": x[0].strip()[:300],
                        "detail": (r.violated or "")})
    if len(failures) > 6:
        log("[trace] %d further failing executions not re-run alone" % (len(failures) - 6))
    return nexec, nev, out, len(failures)


# ----------------------------------------------------------------------------- findings / evidence

def known_findings():
    p = os.path.join(ROOT, "known_findings.json")
    if not os.path.exists(p):
        return []
    return json.load(open(p)).get("findings", [])


CURRENT_REPORT = None


class Report:
    """Collects what a check run covered and decides the exit status."""

    def __init__(self, prop, tier, seed):
        self.prop, self.tier, self.seed = prop, tier, seed
        self.t0 = time.time()
        self.states = 0
        self.transitions = 0
        self.traces = 0
        self.samples = []
        self.assumptions = []
        self.extra = {}
        self.violations = []     # (text, replay path)
        self.known = {}          # finding id -> count
        self.exhaustive = True
        global CURRENT_REPORT
        CURRENT_REPORT = self

    def add_tlc(self, name, r):
        self.states += r.distinct
        self.transitions += r.generated
        self.extra.setdefault("tlc_runs", []).append(
            {"name": name, "distinct": r.distinct, "generated": r.generated, "depth": r.depth, "wall_s": round(r.wall, 1),
             "coverage": {k: list(v) for k, v in sorted(r.coverage.items())}})

    def sample(self, s):
        if len(self.samples) < 6:
            self.samples.append(s)

    def violation(self, text, replay):
        self.violations.append((text, replay))

    def known_finding(self, fid, text):
        if fid not in self.known:
            self.known[fid] = [0, text]
        self.known[fid][0] += 1

    def finish(self):
        os.makedirs(EVID, exist_ok=True)
        legs = self.extra.get("legs", {})
        sampled = [k for k in legs if not k.startswith(("gen", "exh", "small", "lattice"))]
        cov = {"states": max(self.states, 0), "transitions": max(self.transitions, 0),
               "traces_validated_against_impl": self.traces,
               "samples": self.samples or ["(none)"],
               # the TLC runs listed under tlc_runs exhausted their bounded state spaces; legs that record random histories sample
               "exhaustive": self.exhaustive and not sampled and self.states > 0,
               "model_state_spaces_exhausted": True, "sampled_legs": sampled,
               "evaluations": sum(v.get("events", 0) for v in legs.values())}
        cov.update(self.extra)
        if self.known:
            cov["known_findings_hit"] = {k: v[0] for k, v in self.known.items()}
        ev = {"property_id": self.prop, "tier": self.tier, "seed": self.seed, "level": "model_checking",
              "coverage": cov, "assumptions": self.assumptions, "wall_s": round(time.time() - self.t0, 1),
              "violations": len(self.violations)}
        with open(os.path.join(EVID, self.prop + ".json"), "w") as f:
            json.dump(ev, f, indent=1, default=str)
        for fid, (n, text) in self.known.items():
            print("KNOWN-FINDING: property=%s %s [%s, %d cases]" % (self.prop, text, fid, n), flush=True)
        for text, rp in self.violations[:10]:
            print("VIOLATION property=%s replay=%s" % (self.prop, rp), flush=True)
            print("  " + text[:1500], flush=True)
        if self.violations:
            return 1
        log("[%s] OK tier=%s states=%d transitions=%d traces=%d wall=%.0fs" % (
            self.prop, self.tier, self.states, self.transitions, self.traces, time.time() - self.t0))
        return 0


# ----------------------------------------------------------------------------- cfg generation

def tla_val(v):
    if isinstance(v, bool):
        return "TRUE" if v else "FALSE"
    if isinstance(v, (set, frozenset)):
        return "{" + ", ".join(tla_val(x) for x in sorted(v)) + "}"
    if isinstance(v, (list, tuple)):
        return "<<" + ", ".join(tla_val(x) for x in v) + ">>"
    if isinstance(v, str):
        return v
    return str(v)


def write_cfg(name, constants=None, invariants=(), spec="Spec", view=None, properties=(), postcondition=None,
              constraint=None, action_constraint=None, deadlock=False, init_next=None):
    """Write a TLC configuration under build/cfg and return its path (constants are recorded in evidence)."""
    d = os.path.join(BUILD, "cfg")
    os.makedirs(d, exist_ok=True)
    lines = []
    if init_next:
        lines += ["INIT " + init_next[0], "NEXT " + init_next[1]]
    else:
        lines.append("SPECIFICATION " + spec)
    if constants:
        lines.append("CONSTANTS")
        for k, v in constants.items():
            if isinstance(v, str) and v.startswith("<-"):
                lines.append("  %s %s" % (k, v))       # definition override (e.g. sets with negative members)
            else:
                lines.append("  %s = %s" % (k, tla_val(v)))
    if view:
        lines.append("VIEW " + view)
    if invariants:
        lines.append("INVARIANTS " + " ".join(invariants))
    if properties:
        lines.append("PROPERTIES " + " ".join(properties))
    if constraint:
        lines.append("CONSTRAINT " + constraint)
    if action_constraint:
        lines.append("ACTION_CONSTRAINT " + action_constraint)
    if postcondition:
        lines.append("POSTCONDITION " + postcondition)
    lines.append("CHECK_DEADLOCK " + ("TRUE" if deadlock else "FALSE"))
    p = os.path.join(d, name + ".cfg")
    with open(p, "w") as f:
        f.write("\n".join(lines) + "\n")
    return p


def trace_leg(rep, module, cfg, trace, label, what, workdir=None, chunks=None, timeout=3000, keep=False, env=None, deque=False):
    """Validate a concatenated trace recorded from the implementation; book results into rep."""
    workdir = workdir or os.path.join(BUILD, rep.prop)
    nexec, nev, fails, nfail = validate_executions(module, cfg, trace, workdir, rep.prop, label=label,
                                                   chunks=chunks or NCPU, timeout=timeout, env=env, deque=deque)
    log("[%s] %s: %d executions, %d events, %d rejected" % (rep.prop, label, nexec, nev, nfail))
    rep.traces += nexec - nfail
    rep.extra.setdefault("legs", {})[label] = {"executions": nexec, "events": nev, "rejected": nfail, "what": what}
    for f in fails:
        rep.violation("%s: rejected after %d events; next event %s (execution starts %s) %s" % (
            what, f["matched"], f["next_event"], f["reset"], f["detail"]), f["replay"])
    if nfail and not fails:
        raise Infra("%s: %d rejections did not repeat when re-run alone (flaky validation)" % (label, nfail))
    with open(trace) as f:
        evs = []
        for line in f:
            evs.append(json.loads(line))
            if len(evs) >= 4:
                break
        rep.sample({"leg": label, "events": evs})
    if not keep:
        os.remove(trace)
    return nfail


def gen_paths(rep, module, consts, name, invariants=("EmitState",), view="View", timeout=1800, workers=1):
    """Run a Gen configuration: TLC prints one JSON line per distinct state (shortest path)."""
    cfg = write_cfg(rep.prop.lower() + "_" + name, consts, list(invariants), view=view)
    paths = os.path.join(BUILD, rep.prop, name + ".paths")
    os.makedirs(os.path.dirname(paths), exist_ok=True)
    need_ok(tlc(module, cfg, workers=workers, printed_to=paths, timeout=timeout), name)
    return paths


def mc(rep, module, consts, name, invariants, view="View", actions=(), workers=None, timeout=3000, xmx="24g", properties=(),
       constraint=None):
    cfg = write_cfg(rep.prop.lower() + "_" + name, consts, list(invariants), view=view, properties=properties, constraint=constraint)
    r = need_ok(tlc(module, cfg, workers=workers or NCPU, coverage=True, timeout=timeout, xmx=xmx), name)
    need_coverage(r, actions, name)
    rep.add_tlc(name, r)
    rep.extra.setdefault("constants", {})[name] = {k: (sorted(v) if isinstance(v, (set, frozenset)) else v) for k, v in consts.items()}
    log("[%s] %s: %d distinct / %d generated, depth %d, %.0fs" % (rep.prop, name, r.distinct, r.generated, r.depth, r.wall))
    return r


def trace_leg_known(rep, module, cfg, trace, label, what, finding_id, env=None, chunks=None, timeout=3000):
    """Like trace_leg, for a module that carries a named as-coded deviation (a known finding).  First a strict pass; if that
    rejects anything, a second pass with KNOWN=1 accepts exactly the as-coded variant next to the correct one.  Rejections that
    the deviation explains are reported as KNOWN-FINDING (if the finding is listed in known_findings.json); anything else is a
    violation."""
    workdir = os.path.join(BUILD, rep.prop)
    env = dict(env or {})
    nexec, nev, fails, nfail = validate_executions(module, cfg, trace, workdir, rep.prop, label=label, chunks=chunks or NCPU,
                                                   timeout=timeout, env=dict(env, KNOWN="0"))
    listed = [f for f in known_findings() if f.get("id") == finding_id and f.get("property") == rep.prop]
    legs = rep.extra.setdefault("legs", {})
    if nfail == 0:
        log("[%s] %s: %d executions, %d events, 0 rejected (the listed finding %s no longer shows)" % (rep.prop, label, nexec, nev, finding_id))
        rep.traces += nexec
        legs[label] = {"executions": nexec, "events": nev, "rejected": 0, "what": what}
    else:
        nexec2, nev2, fails2, nfail2 = validate_executions(module, cfg, trace, workdir, rep.prop, label=label + "_known", chunks=chunks or NCPU,
                                                           timeout=timeout, env=dict(env, KNOWN="1"))
        legs[label] = {"executions": nexec, "events": nev, "rejected_strict": nfail, "rejected_with_named_deviation": nfail2, "what": what}
        log("[%s] %s: %d executions, %d events, %d rejected strictly, %d rejected with the named deviation accepted" % (
            rep.prop, label, nexec, nev, nfail, nfail2))
        if nfail2 == 0 and listed:
            rep.known_finding(finding_id, listed[0]["what"])
            rep.traces += nexec - nfail
        else:
            for f in (fails2 if nfail2 else fails):
                rep.violation("%s: rejected after %d events; next event %s %s" % (what, f["matched"], f["next_event"], f["detail"]), f["replay"])
            if not (fails2 if nfail2 else fails):
                raise Infra("%s: rejections did not repeat when re-run alone" % label)
    with open(trace) as f:
        evs = [json.loads(next(f)) for _ in range(3)]
    rep.sample({"leg": label, "events": evs})
    os.remove(trace)
