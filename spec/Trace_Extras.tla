----------------------------- MODULE Trace_Extras -----------------------------
EXTENDS Extras, TLC, Json, IOUtils
Tr == ndJsonDeserialize(IOEnv.TRACE)
VARIABLES l
tvars == <<pidvars, fvars, lgvars, l>>
TraceInit == /\ pidHas = FALSE /\ pidErr = 0 /\ pidAt = 0 /\ pidI8 = 0 /\ kp = 0 /\ ki = 0 /\ kd = 0 /\ imin8 = 0 /\ imax8 = 0 /\ eps = 0
             /\ fInit = FALSE /\ fNum = 0 /\ fDen = 1 /\ fPrev = 0 /\ fw = 0 /\ l = 1
             /\ lgOpen = FALSE /\ lgCols = <<>> /\ lgPending = <<>> /\ lgLines = <<>>
IsEvent(ev) == l <= Len(Tr) /\ Tr[l].e = ev /\ l' = l + 1
TReset == /\ IsEvent("Reset") /\ PidSetUp(Tr[l].kp, Tr[l].ki, Tr[l].kd, Tr[l].imin8, Tr[l].imax8, Tr[l].eps) /\ FSetUp(Tr[l].w) /\ LgSetUp(Tr[l].lgopen)
TPid == IsEvent("pid") /\ Tr[l].ex /\ PidCompute(Tr[l].at, Tr[l].sp, Tr[l].meas, Tr[l].out8k) /\ UNCHANGED <<fvars, lgvars>>
TFilter == IsEvent("filter") /\ FUpdate(Tr[l].x) /\ Tr[l].ex /\ Tr[l].num = fNum' /\ Tr[l].den = fDen' /\ UNCHANGED <<pidvars, lgvars>>
TFReset == IsEvent("freset") /\ FReset /\ UNCHANGED <<pidvars, lgvars>>
TOneToOne == IsEvent("onetoone") /\ UNCHANGED <<pidvars, fvars, lgvars>> /\ (OneToOneOK(Tr[l].inp, Tr[l].out, Tr[l].byTarget) = TRUE)
TDuration == /\ IsEvent("duration") /\ UNCHANGED <<pidvars, fvars, lgvars>>
             /\ Tr[l].fromMicro = FromMicro(Tr[l].us) /\ Tr[l].toMicro = ToMicro(Tr[l].ns)
TRansac == IsEvent("ransac") /\ UNCHANGED <<pidvars, fvars, lgvars>> /\ (RansacOK(Tr[l]) = TRUE)
TNlse == IsEvent("nlse") /\ UNCHANGED <<pidvars, fvars, lgvars>> /\ (NlseOK(Tr[l]) = TRUE)
TLgAdd == IsEvent("lgadd") /\ LgAdd(Tr[l].name, Tr[l].v) /\ UNCHANGED <<pidvars, fvars>>
TLgWrite == IsEvent("lgwrite") /\ LgWrite /\ UNCHANGED <<pidvars, fvars>>
TLgFile == IsEvent("lgfile") /\ UNCHANGED <<pidvars, fvars, lgvars>> /\ Tr[l].lines = lgLines /\ LgHeaderFirst
TWrap == IsEvent("wrap") /\ UNCHANGED <<pidvars, fvars, lgvars>> /\ Wrap02OK(Tr[l].k, Tr[l].j02) /\ WrapPiOK(Tr[l].k, Tr[l].jpi) /\ Tr[l].ex
TAlgo == IsEvent("algo") /\ UNCHANGED <<pidvars, fvars, lgvars>> /\ (AlgoOK(Tr[l]) = TRUE)
TIntervalN == IsEvent("intervaln") /\ UNCHANGED <<pidvars, fvars, lgvars>> /\ (IntervalNOK(Tr[l]) = TRUE)
TRansacIt == IsEvent("ransacit") /\ UNCHANGED <<pidvars, fvars, lgvars>> /\ (RansacItOK(Tr[l]) = TRUE)
TMest == IsEvent("mest") /\ UNCHANGED <<pidvars, fvars, lgvars>> /\ (MestOK(Tr[l]) = TRUE)
TraceNext == TMest \/ TRansacIt \/ TLgAdd \/ TLgWrite \/ TLgFile \/ TWrap \/ TAlgo \/ TIntervalN \/ TNlse \/ TRansac \/ TReset \/ TPid \/ TFilter \/ TFReset \/ TOneToOne \/ TDuration
TraceSpec == TraceInit /\ [][TraceNext]_tvars
TraceAccepted == TLCGet("stats").diameter - 1 = Len(Tr)
=============================================================================
