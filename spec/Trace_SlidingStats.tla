------------------------- MODULE Trace_SlidingStats -------------------------
(* Trace validation of OnlineAverage / OnlineVariance histories recorded by *)
(* harness/drive_stats.cpp against SlidingStats.                             *)
EXTENDS SlidingStats, TLC, Json, IOUtils

Tr == ndJsonDeserialize(IOEnv.TRACE)
VARIABLES l, saved, kind
tvars == <<ssvars, l, saved, kind>>

TraceInit == InitWith(1) /\ l = 1 /\ saved = <<>> /\ kind = "avg"
IsEvent(e) == l <= Len(Tr) /\ Tr[l].e = e /\ l' = l + 1

(* what the harness projected from getAverage / getVariance / isAvailable after the call:  *)
(*   sum = round(average * m * n)  with sumExact = "it was an integer to 1e-9 of scale"    *)
(*   var = round(variance * m^2 * W * (W-1)), logged only once W samples have arrived      *)
ObservedUpdate ==
  LET t == Tr[l] IN
  /\ t.avail = (cnt' >= W)
  /\ t.sumExact /\ t.sum = SumSeq(win')
  /\ (kind = "var" /\ cnt' >= W) => (t.hasVar /\ t.varExact /\ t.var =
                                      W * SumSeq(Squares(win')) - SumSeq(win') * SumSeq(win'))

TReset  == IsEvent("Reset") /\ SetUp(Tr[l].W) /\ kind' = Tr[l].kind /\ UNCHANGED saved
TUpdate == IsEvent("update") /\ Update(Tr[l].q) /\ ObservedUpdate /\ UNCHANGED <<saved, kind>>
TResetCall == IsEvent("reset") /\ Reset /\ Tr[l].avail = (0 >= W) /\ UNCHANGED <<saved, kind>>
TResize == IsEvent("resize") /\ Resize(Tr[l].W) /\ ~Tr[l].avail /\ UNCHANGED <<saved, kind>>
TSave    == IsEvent("save") /\ saved' = ssvars /\ UNCHANGED <<ssvars, kind>>
TRestore == /\ IsEvent("restore")
            /\ W' = saved[1] /\ win' = saved[2] /\ cnt' = saved[3] /\ data' = saved[4]
            /\ idx' = saved[5] /\ sum' = saved[6] /\ sumsq' = saved[7]
            /\ UNCHANGED <<saved, kind>>
TraceNext == TResize \/ TReset \/ TUpdate \/ TResetCall \/ TSave \/ TRestore
TraceSpec == TraceInit /\ [][TraceNext]_tvars
TraceAccepted == TLCGet("stats").diameter - 1 = Len(Tr)
=============================================================================
