SPECIFICATION TraceSpec
INVARIANTS ConstructorOK CellsInGrid CellsOnSegment StartsAtOrigin EndsAtEnd CanAlwaysStep
POSTCONDITION TraceAccepted
CHECK_DEADLOCK FALSE
