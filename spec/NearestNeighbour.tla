--------------------------- MODULE NearestNeighbour ---------------------------
(***************************************************************************)
(* KdTree<PointType> nearest-neighbour queries (src/pointset/KdTree.cpp,   *)
(* nanoflann) - property C08.  Relational: the kd-tree is an optimisation  *)
(* refinement of exhaustive search, ties are left free.                    *)
(* Points and queries are integer tuples; indexes are 0-based as in the    *)
(* code; distances are squared Euclidean distances.                        *)
(***************************************************************************)
EXTENDS Integers, Sequences, FiniteSets

RECURSIVE SumF(_, _)
SumF(f, n) == IF n = 0 THEN 0 ELSE f[n] + SumF(f, n - 1)
D2(p, q) == SumF([a \in 1..Len(q) |-> (p[a] - q[a]) * (p[a] - q[a])], Len(q))

(* findNearestNeighbor may return any index i of a point at minimal distance, with that squared distance *)
ValidNN(P, q, i, d2) ==
  /\ i >= 0 /\ i < Len(P)
  /\ d2 = D2(P[i + 1], q)
  /\ \A j \in 1..Len(P) : d2 <= D2(P[j], q)

(* findNearestNeighbors(k): k distinct indexes, ascending distances, each distance matching its point, *)
(* and no point left out that is strictly closer than the last one returned                           *)
ValidKNN(P, q, k, idx, d2) ==
  /\ Len(idx) = k /\ Len(d2) = k
  /\ \A m \in 1..k : idx[m] >= 0 /\ idx[m] < Len(P) /\ d2[m] = D2(P[idx[m] + 1], q)
  /\ \A m, n \in 1..k : m # n => idx[m] # idx[n]
  /\ \A m \in 1..(k - 1) : d2[m] <= d2[m + 1]
  /\ \A j \in 1..Len(P) : (\A m \in 1..k : idx[m] # j - 1) => D2(P[j], q) >= d2[k]
=============================================================================
