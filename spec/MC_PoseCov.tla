------------------------------ MODULE MC_PoseCov ------------------------------
EXTENDS PoseCov, TLC
VARIABLES dummy
Init == dummy = 0
Next == UNCHANGED dummy
Label6 == [i \in 1..6 |-> [j \in 1..6 |-> 10 * i + j]]                       \* all entries distinct
SymLabel6 == [i \in 1..6 |-> [j \in 1..6 |-> IF i <= j THEN 10 * i + j ELSE 10 * j + i]]
Label3 == [i \in 1..3 |-> [j \in 1..3 |-> 10 * i + j]]
Vals == {-1, 0, 2}
Grams == {MulN(G, TrN(G, 3), 3) : G \in {<<r1, r2, r3>> : r1 \in {<<1, 0, 0>>, <<1, 2, 0>>, <<0, 0, 0>>}, r2 \in {<<0, 1, 0>>, <<-1, 1, 2>>}, r3 \in {<<0, 0, 1>>, <<2, 0, -1>>, <<1, 2, 0>>}}}
Laws ==
  /\ Reduce(Label6) = << <<11, 12, 16>>, <<21, 22, 26>>, <<61, 62, 66>> >>      \* exactly the planar components
  /\ Reduce(Embed(Label3)) = Label3                                             \* embedding then reducing is the identity
  /\ Symmetric(Reduce(SymLabel6), 3) /\ Symmetric(Embed(Reduce(SymLabel6)), 6)  \* symmetry preserved
  /\ \A M \in Grams : Psd3(M)                                                    \* Gram matrices are PSD (sanity of Psd3)
  /\ \A q \in 0..3 : ProperRot(Rz(QA(q)), 1)
  /\ \A q \in 0..3 : Propagate(Jtrue(0), Embed(Label3)) = Embed(Label3)          \* identity transform leaves the covariance unchanged
  /\ \A q1, q2 \in 0..3 : \A rq, yq \in 0..3 :                                   \* successive transforms compose
       ActAtt(q2, ActAtt(q1, rq, yq)[1], ActAtt(q1, rq, yq)[3]) = ActAtt(q1 + q2, rq, yq)
  /\ \A q1, q2 \in 0..3 : MulN(Jtrue(q2), Jtrue(q1), 6) = Jtrue(q1 + q2)
  /\ JAsCoded(0, 0, 0) # Jtrue(0)                                                \* the as-coded Jacobian differs at the identity
LawsHold == Laws
=============================================================================
