-------------------------------- MODULE Ring --------------------------------
(***************************************************************************)
(* RingOfEigenVector (include/.../containers/Eigen/RingOfEigenVector.hpp): *)
(* a ring of capacity C holds the min(n, C) most recent items; entry k is  *)
(* the k-th most recently appended item, also after clear()  (C16).        *)
(* Abstract: items (most recent first).  Code-like: ring, ridx, with the   *)
(* index arithmetic in mathematical integers (the intended design).        *)
(***************************************************************************)
EXTENDS Integers, Sequences

VARIABLES C, items, ring, ridx
rgvars == <<C, items, ring, ridx>>

InitWith(c) == C = c /\ items = <<>> /\ ring = <<>> /\ ridx = -1
SetUp(c)    == C' = c /\ items' = <<>> /\ ring' = <<>> /\ ridx' = -1

Append1(v) ==
  /\ items' = IF Len(items) < C THEN <<v>> \o items ELSE <<v>> \o SubSeq(items, 1, C - 1)
  /\ ridx' = (ridx + 1) % C
  /\ ring' = IF Len(ring) = C THEN [ring EXCEPT ![((ridx + 1) % C) + 1] = v] ELSE Append(ring, v)
  /\ C' = C

Clear == items' = <<>> /\ ring' = <<>> /\ ridx' = -1 /\ C' = C

Size   == Len(items)
Get(k) == items[k + 1]                          \* k-th most recent, k in 0..Size-1

Refines == /\ Len(ring) = Len(items)
           /\ \A k \in 0..(Len(items) - 1) : items[k + 1] = ring[((ridx - k) % Len(ring)) + 1]
SizeIsMin == Len(items) <= C
=============================================================================
