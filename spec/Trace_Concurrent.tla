--------------------------- MODULE Trace_Concurrent ---------------------------
(***************************************************************************)
(* Validation of concurrent histories recorded from the real objects by    *)
(* harness/stress_concurrent.cpp (C19).  Events carry a global sequence    *)
(* number; inv/res are logged by the calling thread around the call,       *)
(* lock/unlock by shims around pthread_mutex_lock/unlock for mutexes that  *)
(* live inside the object (lock: after the real lock is taken; unlock:     *)
(* before it is released).                                                 *)
(*                                                                         *)
(* The sequential meaning of each object is the sequential module of its   *)
(* property (SlidingStats, Checkup, RateMonitor, RateCheckup, a register,  *)
(* an optional cell).  A history is accepted iff                           *)
(*  - every MUTATING call takes a mutex of the object; its effect is the   *)
(*    sequential action, applied when the call first acquires a mutex, and *)
(*    its returned value is the one the sequential action yields there;    *)
(*  - every READ-ONLY call returns an observation the object had at some   *)
(*    point between its invocation and its response (the state before any  *)
(*    mutating call still in flight at the invocation included), i.e. the  *)
(*    history is linearizable; torn values never match any observation.    *)
(*    States are numbered in the order the mutating calls take effect; the *)
(*    state a read is explained by may not be older than one explained to  *)
(*    a read that had returned before it was invoked (one total order).    *)
(*  - while the variance window is filling (C16 leaves the value open) the *)
(*    sequential observation is the one a replica of the object, driven by *)
(*    the writer alone with the same calls, reports (bit pattern).         *)
(***************************************************************************)
EXTENDS RateCheckup, TLC, Json, IOUtils

Tr == ndJsonDeserialize(IOEnv.TRACE)

VARIABLES sW, win, cnt, data, idx, sum, sumsq      \* OnlineAverage / OnlineVariance
SS == INSTANCE SlidingStats WITH W <- sW
ssv == <<sW, win, cnt, data, idx, sum, sumsq>>

VARIABLES l, okind,   \* object kind: "sv" "sov" "avg" "var" "ck" "rm" "rc"
          reg,        \* register / optional cell (0 = empty)
          lastAt,     \* absolute tick of the last stamp (rm, rc)
          th,         \* thread -> [m, arg, depth, nlk, exp, acc]
          pre,        \* thread -> observations of the object just before that thread's in-flight mutating call took effect
          heldmx,     \* thread -> the mutexes (offsets inside the object) it holds, in acquisition order
          ver, gmax,  \* number of mutating calls that have taken effect; newest state explained to a completed read
          vbits,      \* what getVariance reports sequentially while the window is filling (bit pattern from the replica)
          edges       \* observed nesting: <<a, b>> = some thread acquired b while holding a   (spec/LockOrder.tla)
tvars == <<rcvars, ssv, l, okind, reg, lastAt, th, pre, heldmx, ver, gmax, vbits, edges>>

Mutators == {"store", "consume", "update", "reset", "evaluate", "timeout", "stamp", "hb"}
NoObs == [none |-> TRUE]
Idle == [m |-> "idle", arg |-> 0, vb |-> <<0, 0, 0>>, floor |-> 0, depth |-> 0, nlk |-> 0, exp |-> 0, acc |-> {}]
MaxOf2(a, b) == IF a > b THEN a ELSE b

(* every read-only observation of the current object state, by reader method *)
AvgObs == IF Len(win) = 0 THEN <<TRUE, 0>> ELSE <<FALSE, (SS!SumSeq(win) * 840) \div Len(win)>>   \* 840 = lcm(1..8) >= W
VarObs == IF cnt >= sW THEN <<TRUE, SS!VarNum, <<0, 0, 0>>>> ELSE <<FALSE, 0, vbits>>
AllObs == [load |-> reg, getAverage |-> AvgObs, isAvailable |-> (cnt >= sW), getVariance |-> VarObs, getReport |-> report]
AllObsNext == [load |-> reg', getAverage |-> (IF Len(win') = 0 THEN <<TRUE, 0>> ELSE <<FALSE, (SS!SumSeq(win') * 840) \div Len(win')>>),
               isAvailable |-> (cnt' >= sW'),
               getVariance |-> (IF cnt' >= sW' THEN <<TRUE, sW' * SS!SumSeq(SS!Squares(win')) - SS!SumSeq(win') * SS!SumSeq(win'), <<0, 0, 0>>>>
                                                ELSE <<FALSE, 0, vbits'>>),
               getReport |-> report']

TraceInit == /\ RcInitWith("eq", 8, 0, 1000) /\ SS!InitWith(1)
             /\ l = 1 /\ okind = "sv" /\ reg = 0 /\ lastAt = 0
             /\ th = [t \in {0} |-> Idle] /\ pre = [t \in {0} |-> NoObs]
             /\ heldmx = [t \in {0} |-> <<>>] /\ edges = {} /\ ver = 0 /\ gmax = 0 /\ vbits = <<-1, 0, 0>>
IsEvent(e) == l <= Len(Tr) /\ Tr[l].e = e /\ l' = l + 1

TReset ==
  /\ IsEvent("Reset")
  /\ okind' = Tr[l].kind /\ reg' = 0 /\ lastAt' = 0
  /\ th' = [t \in 0..(Tr[l].threads - 1) |-> Idle] /\ pre' = [t \in 0..(Tr[l].threads - 1) |-> NoObs]
  /\ heldmx' = [t \in 0..(Tr[l].threads - 1) |-> <<>>] /\ edges' = {} /\ ver' = 0 /\ gmax' = 0 /\ vbits' = <<-1, 0, 0>>
  /\ SS!SetUp(Tr[l].W)
  /\ IF Tr[l].kind \in {"rm", "rc"} THEN RcSetUp(Tr[l].ck, Tr[l].a, Tr[l].b, 1000)
                                    ELSE RmSetUp(4, 1000) /\ SetUp(Tr[l].ck, Tr[l].a, Tr[l].b, "stale")

TInv ==
  /\ IsEvent("inv")
  /\ LET t == Tr[l].t  m == Tr[l].m IN
     /\ th[t].m = "idle"
     /\ th' = [th EXCEPT ![t] = [m |-> m, arg |-> Tr[l].arg, vb |-> Tr[l].vb, floor |-> gmax, depth |-> 0, nlk |-> 0, exp |-> 0,
                                  acc |-> IF m \in Mutators THEN {}
                                          ELSE {<<ver, AllObs[m]>>} \cup {<<pre[u].ver, pre[u].obs[m]>> : u \in {v \in DOMAIN pre : pre[v] # NoObs}}]]
  /\ UNCHANGED <<rcvars, ssv, okind, reg, lastAt, pre, heldmx, ver, gmax, vbits, edges>>

(* the sequential effect of the mutating call of thread t, with its expected return value *)
Effect(t, exp) ==
  LET m == th[t].m  a == th[t].arg IN
  CASE m = "store" /\ okind \in {"sv", "sov"} -> reg' = a /\ exp = 0 /\ UNCHANGED <<rcvars, ssv, lastAt>>
    [] m = "consume" -> reg' = 0 /\ exp = reg /\ UNCHANGED <<rcvars, ssv, lastAt>>
    [] m = "update" -> SS!Update(a) /\ exp = 0 /\ UNCHANGED <<rcvars, reg, lastAt>>
    [] m = "reset" -> SS!Reset /\ exp = 0 /\ UNCHANGED <<rcvars, reg, lastAt>>
    [] m = "evaluate" /\ okind = "ck" -> Evaluate(<<a, 0>>) /\ exp = returned' /\ UNCHANGED <<rmvars, ssv, reg, lastAt>>
    [] m = "timeout" /\ okind = "ck" -> Timeout /\ exp = 0 /\ UNCHANGED <<rmvars, ssv, reg, lastAt>>
    [] m = "stamp" /\ okind = "rm" -> Stamp(a - lastAt) /\ exp = span' /\ lastAt' = a /\ UNCHANGED <<ckvars, ssv, reg>>
    [] m = "hb" /\ okind = "rm" -> Heartbeat(a - lastAt) /\ exp = (IF TimesOut(a - lastAt) THEN 1 ELSE 0)
                                   /\ UNCHANGED <<ckvars, ssv, reg, lastAt>>
    [] m = "stamp" /\ okind = "rc" -> EvaluateStamp(a - lastAt) /\ exp = returned' /\ lastAt' = a /\ UNCHANGED <<ssv, reg>>
    [] m = "hb" /\ okind = "rc" -> HeartBeat(a - lastAt) /\ exp = (IF TimesOut(a - lastAt) THEN 1 ELSE 0)
                                   /\ UNCHANGED <<ssv, reg, lastAt>>

TLock ==
  /\ IsEvent("lock")
  /\ heldmx' = [heldmx EXCEPT ![Tr[l].t] = Append(@, Tr[l].mx)]
  /\ edges' = edges \cup {<<heldmx[Tr[l].t][k], Tr[l].mx>> : k \in DOMAIN heldmx[Tr[l].t]}
  /\ LET t == Tr[l].t IN
     /\ th[t].m # "idle"
     /\ IF th[t].m \in Mutators /\ th[t].nlk = 0
          THEN \E exp \in {-1, 0, 1, 2, 3} \cup {reg} \cup {psum + th[t].arg - lastAt - (IF periods = <<>> THEN 0 ELSE Head(periods)), span} :
                 /\ Effect(t, exp)
                 /\ ver' = ver + 1
                 /\ vbits' = IF th[t].m \in {"update", "reset"} THEN th[t].vb ELSE vbits
                 /\ pre' = [pre EXCEPT ![t] = [ver |-> ver, obs |-> AllObs]]
                 /\ th' = [u \in DOMAIN th |->
                             IF u = t THEN [th[t] EXCEPT !.depth = 1, !.nlk = 1, !.exp = exp]
                             ELSE IF th[u].m \in (DOMAIN AllObs) THEN [th[u] EXCEPT !.acc = @ \cup {<<ver + 1, AllObsNext[th[u].m]>>}]
                             ELSE th[u]]
          ELSE /\ th' = [th EXCEPT ![t].depth = @ + 1, ![t].nlk = @ + (IF th[t].depth = 0 THEN 1 ELSE 0)]
               /\ UNCHANGED <<rcvars, ssv, reg, lastAt, pre, ver, vbits>>
  /\ UNCHANGED <<okind, gmax>>

TUnlock ==
  /\ IsEvent("unlock")
  /\ th[Tr[l].t].depth > 0
  /\ Len(heldmx[Tr[l].t]) > 0 /\ heldmx[Tr[l].t][Len(heldmx[Tr[l].t])] = Tr[l].mx          \* released in reverse order of acquisition
  /\ heldmx' = [heldmx EXCEPT ![Tr[l].t] = SubSeq(@, 1, Len(@) - 1)]
  /\ th' = [th EXCEPT ![Tr[l].t].depth = @ - 1]
  /\ UNCHANGED <<rcvars, ssv, okind, reg, lastAt, pre, ver, gmax, vbits, edges>>

Abs(x) == IF x < 0 THEN -x ELSE x
ValueClose(vs, s) == IF s = 0 THEN vs = 0 ELSE vs > 0 /\ Abs(vs - s) <= s \div 100000 + 1
ReportMatches(t, r) ==      \* logged report copy t against a report value r of the model
  /\ t.status = r.status /\ t.verdict = r.verdict /\ t.has = r.value.has
  /\ r.value.has => IF okind = "rc" THEN ValueClose(t.value, r.value.k) ELSE t.value = r.value.k

(* does the logged result t of read-only method m match the observation o *)
Matches(m, t, o) ==
  CASE m = "load" -> ~t.torn /\ t.ret = o
    [] m = "getAverage" -> t.exact /\ <<t.nan, t.ret>> = o
    [] m = "isAvailable" -> (t.ret = 1) = o
    [] m = "getVariance" -> IF o[1] THEN t.exact /\ o[2] = t.ret ELSE o[3] = t.vb
    [] m = "getReport" -> ReportMatches(t, o)

TRes ==
  /\ IsEvent("res")
  /\ LET t == Tr[l].t  c == th[Tr[l].t] IN
     /\ c.m = Tr[l].m /\ c.depth = 0
     /\ IF c.m \in Mutators
          THEN c.nlk >= 1 /\ Tr[l].ret = c.exp /\ gmax' = gmax           \* guarded, and the sequential result
          ELSE LET cand == {p[1] : p \in {q \in c.acc : q[1] >= c.floor /\ Matches(c.m, Tr[l], q[2])}} IN
               /\ cand # {}
               /\ gmax' = MaxOf2(gmax, CHOOSE v \in cand : \A w \in cand : v <= w)       \* the oldest admissible state: least constraining
     /\ th' = [th EXCEPT ![t] = Idle]
     /\ pre' = [pre EXCEPT ![t] = NoObs]
  /\ UNCHANGED <<rcvars, ssv, okind, reg, lastAt, heldmx, ver, vbits, edges>>

(* the nesting order of the object's mutexes is consistent across all threads: no potential deadlock (LockOrder!OrderConsistent) *)
OrderConsistent == /\ \A e \in edges : <<e[2], e[1]>> \notin edges /\ e[1] # e[2]
                   /\ \A e, f \in edges : e[2] = f[1] => <<f[2], e[1]>> \notin edges

TraceNext == TReset \/ TInv \/ TLock \/ TUnlock \/ TRes
TraceSpec == TraceInit /\ [][TraceNext]_tvars
TraceAccepted == TLCGet("stats").diameter - 1 = Len(Tr)

=============================================================================
