--------------------------------- MODULE Rot ---------------------------------
(***************************************************************************)
(* Exact-lattice model of the rotation parametrisations (C10) and of their *)
(* derivatives (first clause of C12): EulerAngles.hpp, SmartRotation3D,    *)
(* polar / spherical coordinates.                                          *)
(* An angle is a lattice angle <<c, s, d>> (cos = c/d, sin = s/d,          *)
(* c^2 + s^2 = d^2): equality of such triples IS equality modulo 2 pi.     *)
(* Matrices are integer matrices over a common denominator.  This decides  *)
(* the properties on a few thousand structured angle triples with a        *)
(* complete oracle (every matrix entry), not on the continuum.             *)
(***************************************************************************)
EXTENDS Integers, Sequences, FiniteSets

C(a) == a[1]
S(a) == a[2]
Dn(a) == a[3]
IsAngle(a) == Dn(a) > 0 /\ C(a) * C(a) + S(a) * S(a) = Dn(a) * Dn(a)

MatMul(X, Y) == [i \in 1..3 |-> [j \in 1..3 |-> X[i][1] * Y[1][j] + X[i][2] * Y[2][j] + X[i][3] * Y[3][j]]]
MatVec(X, v) == [i \in 1..3 |-> X[i][1] * v[1] + X[i][2] * v[2] + X[i][3] * v[3]]
Transpose(X) == [i \in 1..3 |-> [j \in 1..3 |-> X[j][i]]]
Det3(Q) == Q[1][1] * (Q[2][2] * Q[3][3] - Q[2][3] * Q[3][2]) - Q[1][2] * (Q[2][1] * Q[3][3] - Q[2][3] * Q[3][1])
           + Q[1][3] * (Q[2][1] * Q[3][2] - Q[2][2] * Q[3][1])
Scaled(k, X) == [i \in 1..3 |-> [j \in 1..3 |-> k * X[i][j]]]
MatAdd(X, Y) == [i \in 1..3 |-> [j \in 1..3 |-> X[i][j] + Y[i][j]]]

(* elementary rotations, times the angle's denominator *)
Rx(a) == << <<Dn(a), 0, 0>>, <<0, C(a), -S(a)>>, <<0, S(a), C(a)>> >>
Ry(a) == << <<C(a), 0, S(a)>>, <<0, Dn(a), 0>>, <<-S(a), 0, C(a)>> >>
Rz(a) == << <<C(a), -S(a), 0>>, <<S(a), C(a), 0>>, <<0, 0, Dn(a)>> >>
(* their derivatives with respect to the angle (d cos = -sin, d sin = cos, constants -> 0) *)
DRx(a) == << <<0, 0, 0>>, <<0, -S(a), -C(a)>>, <<0, C(a), -S(a)>> >>
DRy(a) == << <<-S(a), 0, C(a)>>, <<0, 0, 0>>, <<-C(a), 0, -S(a)>> >>
DRz(a) == << <<-S(a), -C(a), 0>>, <<C(a), -S(a), 0>>, <<0, 0, 0>> >>
(* AS CODED (known finding, pinned by test_smart_rotation.cpp): the derivative matrices start as the identity, *)
(* so the constant entry of each elementary derivative stays 1 instead of 0                                    *)
E(i) == [r \in 1..3 |-> [c \in 1..3 |-> IF r = i /\ c = i THEN 1 ELSE 0]]
DRxAsCoded(a) == MatAdd(DRx(a), Scaled(Dn(a), E(1)))
DRyAsCoded(a) == MatAdd(DRy(a), Scaled(Dn(a), E(2)))
DRzAsCoded(a) == MatAdd(DRz(a), Scaled(Dn(a), E(3)))

Den3(r, p, y) == Dn(r) * Dn(p) * Dn(y)
R(r, p, y)    == MatMul(Rz(y), MatMul(Ry(p), Rx(r)))                 \* Z-Y-X: yaw, pitch, roll   (times Den3)
DRdRoll(r, p, y)  == MatMul(Rz(y), MatMul(Ry(p), DRx(r)))
DRdPitch(r, p, y) == MatMul(Rz(y), MatMul(DRy(p), Rx(r)))
DRdYaw(r, p, y)   == MatMul(DRz(y), MatMul(Ry(p), Rx(r)))
DRdRollAsCoded(r, p, y)  == MatMul(Rz(y), MatMul(Ry(p), DRxAsCoded(r)))
DRdPitchAsCoded(r, p, y) == MatMul(Rz(y), MatMul(DRyAsCoded(p), Rx(r)))
DRdYawAsCoded(r, p, y)   == MatMul(DRzAsCoded(y), MatMul(Ry(p), Rx(r)))

(* 2D *)
R2(a) == << <<C(a), -S(a)>>, <<S(a), C(a)>> >>

-----------------------------------------------------------------------------
(* laws over the lattice *)
Orthogonal(X, D) == MatMul(Transpose(X), X) = Scaled(D * D, << <<1, 0, 0>>, <<0, 1, 0>>, <<0, 0, 1>> >>)
ProperRot(X, D)  == Orthogonal(X, D) /\ Det3(X) = D * D * D
(* extraction of the angles from R (cos pitch > 0): -R[3][1] = sin p, (R[3][2], R[3][3]) ~ (sin r, cos r), (R[2][1], R[1][1]) ~ (sin y, cos y) *)
ExtractionOK(r, p, y) ==
  LET X == R(r, p, y) IN
  /\ -X[3][1] * Dn(p) = S(p) * Den3(r, p, y)
  /\ X[3][2] * C(r) = X[3][3] * S(r) /\ X[3][2] * S(r) + X[3][3] * C(r) > 0
  /\ X[2][1] * C(y) = X[1][1] * S(y) /\ X[2][1] * S(y) + X[1][1] * C(y) > 0
(* the derivative of an orthogonal family is skew after multiplication by R^T: R^T dR + (R^T dR)^T = 0 *)
SkewOK(X, DX) == LET M == MatMul(Transpose(X), DX) IN MatAdd(M, Transpose(M)) = Scaled(0, M)
(* ---- generic (non-lattice) inputs: the same consistency relations, checked on residuals measured by the harness in units of  *)
(* 1e-12 (integers, capped): orthogonality and determinant of every produced matrix, agreement of the matrix, quaternion and     *)
(* SmartRotation3D paths with the closed form Rz Ry Rx, angles -> rotation -> angles and rotation -> angles -> rotation round    *)
(* trips modulo 2 pi, normalisers congruent and inside their interval, 2D pair, polar / spherical round trips (relative).        *)
ResidualBound(isFloat) == IF isFloat THEN 100000000 ELSE 1000            \* 1e-4 (float) / 1e-9 (double)
ResidualsOK(res, isFloat) == \A i \in 1..Len(res) : res[i] <= ResidualBound(isFloat)
=============================================================================
