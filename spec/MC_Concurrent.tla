---------------------------- MODULE MC_Concurrent ----------------------------
(* Configurations: the locking discipline as designed (all methods guarded, getters by value) *)
(* holds RaceFree / CopyCoherent / QuiescentCoherent under every interleaving; each as-coded  *)
(* deviation found in the pinned tree (bare evaluate, by-reference getReport, bare            *)
(* isAvailable/timeout read, split evaluate of the rate check-up) violates one of them -      *)
(* which is the model-level reason the corresponding fix: commits exist.                      *)
EXTENDS Concurrent
ThreadsWRR == {"w", "r1", "r2"}
ProgWRR == [t \in ThreadsWRR |-> IF t = "w" THEN <<"write", "write">> ELSE <<"read", "read">>]
ThreadsWWR == {"w", "h", "r1"}                   \* writer, heartbeat (also writes), reader
ProgWWR == [t \in ThreadsWWR |-> IF t = "r1" THEN <<"read", "read">> ELSE IF t = "w" THEN <<"write", "write">> ELSE <<"hb", "hb">>]
F3 == {1, 2, 3}
F2 == {1, 2}
ShapeAllGuarded == [m \in {"write", "read", "hb"} |-> "guarded"]
ShapeBareWrite  == [m \in {"write", "read", "hb"} |-> IF m = "write" THEN "bare" ELSE "guarded"]
ShapeBareRead   == [m \in {"write", "read", "hb"} |-> IF m = "read" THEN "bare" ELSE "guarded"]
ShapeByRefRead  == [m \in {"write", "read", "hb"} |-> IF m = "read" THEN "byref" ELSE "guarded"]
ShapeSplitWrite == [m \in {"write", "read", "hb"} |-> IF m = "write" THEN "split" ELSE "guarded"]
WritesW  == {"write"}
WritesWH == {"write", "hb"}
=============================================================================
