------------------------------- MODULE LockOrder -------------------------------
(***************************************************************************)
(* Nested locking of the composed objects (C19 growth): CheckupRate holds  *)
(* its own mutex around RateMonitoring (own mutex, which in turn takes the *)
(* SharedVariable's mutex) and around the inner Checkup (own mutex).       *)
(* Each method is the sequence of mutexes it acquires (nested, released in *)
(* reverse order).  TLC explores every interleaving of the threads and     *)
(* checks that no reachable state is a deadlock, and that the order in     *)
(* which mutexes are nested is consistent (the acquired-while-holding      *)
(* relation is acyclic) - the invariant the recorded lock events of the    *)
(* real code are checked against in Trace_Concurrent.                      *)
(***************************************************************************)
EXTENDS Integers, Sequences, FiniteSets, TLC
CONSTANTS Threads, Program, Nesting     \* Nesting[m]: the sequence of mutexes method m acquires, outermost first
VARIABLES pc, held, holder, edges
vars == <<pc, held, holder, edges>>
Mutexes == UNION {{Nesting[m][k] : k \in DOMAIN Nesting[m]} : m \in DOMAIN Nesting}
Init == /\ pc = [t \in Threads |-> <<1, 0>>]          \* <<call index, number of mutexes of the current call acquired so far>>
        /\ held = [t \in Threads |-> <<>>] /\ holder = [x \in Mutexes |-> "none"] /\ edges = {}
Active(t) == pc[t][1] <= Len(Program[t])
MSeq(t) == Nesting[Program[t][pc[t][1]]]
Acquire(t) ==
  /\ Active(t) /\ Len(held[t]) = pc[t][2] /\ pc[t][2] < Len(MSeq(t))
  /\ LET x == MSeq(t)[pc[t][2] + 1] IN
     /\ holder[x] = "none"
     /\ holder' = [holder EXCEPT ![x] = t]
     /\ edges' = edges \cup {<<held[t][k], x>> : k \in DOMAIN held[t]}
     /\ held' = [held EXCEPT ![t] = Append(@, x)]
     /\ pc' = [pc EXCEPT ![t] = <<pc[t][1], pc[t][2] + 1>>]
Release(t) ==
  /\ Active(t) /\ pc[t][2] = Len(MSeq(t)) /\ Len(held[t]) > 0
  /\ LET x == held[t][Len(held[t])] IN
     /\ holder' = [holder EXCEPT ![x] = "none"]
     /\ held' = [held EXCEPT ![t] = SubSeq(@, 1, Len(@) - 1)]
     /\ pc' = IF Len(held[t]) = 1 THEN [pc EXCEPT ![t] = <<pc[t][1] + 1, 0>>] ELSE pc
     /\ UNCHANGED edges
Done == \A t \in Threads : ~Active(t)
Next == (\E t \in Threads : Acquire(t) \/ Release(t)) \/ (Done /\ UNCHANGED vars)
Spec == Init /\ [][Next]_vars
(* consistent nesting: the acquired-while-holding relation has no cycle (checked as: no pair in both directions, no 3-cycle) *)
OrderConsistent == /\ \A e \in edges : <<e[2], e[1]>> \notin edges /\ e[1] # e[2]
                   /\ \A e, f \in edges : e[2] = f[1] => <<f[2], e[1]>> \notin edges
(* mutual exclusion of the whole object state: the outer mutex serialises the composed methods *)
=============================================================================
