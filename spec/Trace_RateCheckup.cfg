SPECIFICATION TraceSpec
INVARIANTS Coherent RateIsWindowMean ZeroUntilFull QueueBounded TReportAgrees
POSTCONDITION TraceAccepted
CHECK_DEADLOCK FALSE
