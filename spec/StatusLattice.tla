---------------------------- MODULE StatusLattice ----------------------------
(***************************************************************************)
(* DiagnosticStatus, worse(), worseStatus(), allOK() and report append     *)
(* (src/diagnostics/DiagnosticStatus.cpp, Diagnostic.cpp,                   *)
(* DiagnosticReport.cpp) - the aggregation half of property C18.           *)
(* Statuses are their severity ranks: OK=0 < WARN=1 < ERROR=2 < STALE=3.   *)
(***************************************************************************)
EXTENDS Integers, Sequences, FiniteSets

OK == 0  WARN == 1  ERROR == 2  STALE == 3
Status == {OK, WARN, ERROR, STALE}

Worse(a, b) == IF a >= b THEN a ELSE b

RECURSIVE WorseStatus(_)
WorseStatus(s) == IF Len(s) = 1 THEN s[1] ELSE Worse(s[1], WorseStatus(Tail(s)))   \* non-empty lists
AllOK(s) == WorseStatus(s) = OK

(* a report = [diags |-> sequence of <<status, message id>>,                *)
(*             info  |-> sequence of <<key, value>> sorted by key, keys distinct] *)
Keys(info) == {info[k][1] : k \in DOMAIN info}
Lookup(info, key) == LET k == CHOOSE j \in DOMAIN info : info[j][1] = key IN info[k][2]
RECURSIVE SortedKeys(_)
SortedKeys(S) == IF S = {} THEN <<>> ELSE LET m == CHOOSE x \in S : \A y \in S : x <= y IN <<m>> \o SortedKeys(S \ {m})
MergeInfo(i1, i2) ==      \* std::map::insert: entries of i1 win, new keys of i2 are added
  LET ks == SortedKeys(Keys(i1) \cup Keys(i2))
  IN [j \in DOMAIN ks |-> <<ks[j], IF ks[j] \in Keys(i1) THEN Lookup(i1, ks[j]) ELSE Lookup(i2, ks[j])>>]
AppendReport(r1, r2) == [diags |-> r1.diags \o r2.diags, info |-> MergeInfo(r1.info, r2.info)]

-----------------------------------------------------------------------------
(* The algebraic laws stated by C18, evaluated by TLC over the whole domain *)
LawCommutative == \A a, b \in Status : Worse(a, b) = Worse(b, a)
LawAssociative == \A a, b, c \in Status : Worse(Worse(a, b), c) = Worse(a, Worse(b, c))
LawIdempotent  == \A a \in Status : Worse(a, a) = a
LawPicksMoreSevere == \A a, b \in Status : Worse(a, b) \in {a, b} /\ Worse(a, b) >= a /\ Worse(a, b) >= b
Lists(n) == UNION {[1..k -> Status] : k \in 1..n}
LawWorstIsMax == \A s \in Lists(4) : /\ \E k \in DOMAIN s : WorseStatus(s) = s[k]
                                     /\ \A k \in DOMAIN s : WorseStatus(s) >= s[k]
LawAllOK      == \A s \in Lists(4) : AllOK(s) <=> \A k \in DOMAIN s : s[k] = OK
Laws == LawCommutative /\ LawAssociative /\ LawIdempotent /\ LawPicksMoreSevere /\ LawWorstIsMax /\ LawAllOK
=============================================================================
