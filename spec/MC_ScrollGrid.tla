--------------------------- MODULE MC_ScrollGrid ---------------------------
(* Bounded exhaustive configuration of ScrollGrid, and generator of one     *)
(* shortest path per reachable abstract state for the C++ replay driver.    *)
EXTENDS ScrollGrid, TLC, Json

CONSTANTS Sizes2,       \* set of per-axis sizes explored in 2D (e.g. 1..4)
          Sizes3,       \* same for 3D (empty set: no 3D)
          MaxSteps,     \* bound on translations + writes
          Empties,      \* empty values offered to translate
          WriteVals,    \* values offered to write / fill
          MaxWrites,
          KeepLog

VARIABLES steps, nw, hist

mcvars == <<sgvars, steps, nw, hist>>
View   == <<sgvars, steps, nw>>          \* hist is a ghost: the stored one is a shortest path

LinIdx(d, nn, c) == IF d = 2 THEN c[1] + nn[1] * c[2] ELSE c[1] + nn[1] * c[2] + nn[1] * nn[2] * c[3]
Contents(d, nn) == [c \in CellsOf(d, nn) |-> 100 + LinIdx(d, nn, c)]   \* all distinct

Configs == {<<2, <<x, y>>>> : x \in Sizes2, y \in Sizes2} \cup
           {<<3, <<x, y, z>>>> : x \in Sizes3, y \in Sizes3, z \in Sizes3}

Init == /\ \E c \in Configs : InitWith(c[1], c[2], Contents(c[1], c[2]), KeepLog)
        /\ steps = 0 /\ nw = 0 /\ hist = <<>>

Offsets == IF dim = 2
           THEN {<<x, y>> : x \in -(n[1] + 1)..(n[1] + 1), y \in -(n[2] + 1)..(n[2] + 1)}
           ELSE {<<x, y, z>> : x \in -(n[1] + 1)..(n[1] + 1), y \in -(n[2] + 1)..(n[2] + 1),
                               z \in -(n[3] + 1)..(n[3] + 1)}

Step == steps < MaxSteps /\ steps' = steps + 1

DoTranslate == \E d \in Offsets, e \in Empties :
                 /\ Step
                 /\ Translate(d, e)
                 /\ hist' = Append(hist, [e |-> "translate", d |-> d, empty |-> e])
                 /\ nw' = nw
DoWrite == /\ Step /\ nw < MaxWrites
           /\ \E i \in Cells, v \in WriteVals :
                 /\ Write(i, v)
                 /\ hist' = Append(hist, [e |-> "write", i |-> i, v |-> v])
           /\ nw' = nw + 1
DoFill  == /\ Step /\ nw < MaxWrites
           /\ \E v \in WriteVals :
                 /\ Fill(v)
                 /\ hist' = Append(hist, [e |-> "fill", v |-> v])
           /\ nw' = nw + 1

Next == DoTranslate \/ DoWrite \/ DoFill

Spec == Init /\ [][Next]_mcvars

(* Gen: one line per distinct state = configuration + shortest path to it.  The replay *)
(* driver walks the path on the real object and then tries every action from there.    *)
EmitState == PrintT(ToJson([dim |-> dim, n |-> n, init |-> Lin(init), path |-> hist,
                            empties |-> Empties, wvals |-> WriteVals]))
=============================================================================
