------------------------------ MODULE LsqBuffers ------------------------------
(***************************************************************************)
(* LeastSquares<Real> (src/regression/leastsquares/LeastSquares.cpp) -     *)
(* property C07 (and the solver-covariance clause of C12).                 *)
(* The buffer life-cycle is the state machine: the row capacity never      *)
(* shrinks, growing it discards every row (Garbage) and resets the weights *)
(* to 1, the data size selects the live prefix, weightedEstimate() scales  *)
(* the live rows IN PLACE (named deviation: calling it twice squares the    *)
(* weights).  The numerical answer is specified relationally, as C07 does:  *)
(* any x = A z + b with J^T (J z - Y) = 0 over the live rows.               *)
(* Problems are integer with integer minimisers, so everything is exact.    *)
(***************************************************************************)
EXTENDS Integers, Sequences, FiniteSets

VARIABLES est,      \* estimate size
          dsz,      \* data size: rows 1..dsz are live
          J, Y, Wt, \* row buffers (sequences of length = capacity); a row of J is a tuple or Garbage
          A, b,     \* diagonal affine preconditioner x = A z + b
          cur,      \* ghost: the rows the user filled since the last setDataSize (Unset otherwise)
          wdone     \* ghost: weightedEstimate() has scaled the live rows in place since the last setDataSize
lsvars == <<est, dsz, J, Y, Wt, A, b, cur, wdone>>

Garbage == <<>>          \* a discarded row (never of length est)
Unset   == <<"unset">>
Cap     == Len(J)

RECURSIVE SumF(_, _)
SumF(f, n) == IF n = 0 THEN 0 ELSE f[n] + SumF(f, n - 1)
Dot(u, v) == SumF([k \in 1..Len(u) |-> u[k] * v[k]], Len(u))

LsInitWith(e) == /\ est = e /\ dsz = 0 /\ J = <<>> /\ Y = <<>> /\ Wt = <<>>
                 /\ A = [k \in 1..e |-> 1] /\ b = [k \in 1..e |-> 0] /\ cur = <<>> /\ wdone = FALSE
LsSetUp(e)    == /\ est' = e /\ dsz' = 0 /\ J' = <<>> /\ Y' = <<>> /\ Wt' = <<>>
                 /\ A' = [k \in 1..e |-> 1] /\ b' = [k \in 1..e |-> 0] /\ cur' = <<>> /\ wdone' = FALSE

SetDataSize(n) ==
  /\ dsz' = n
  /\ cur' = [i \in 1..n |-> Unset] /\ wdone' = FALSE
  /\ IF Cap < n
       THEN J' = [i \in 1..n |-> Garbage] /\ Y' = [i \in 1..n |-> 0] /\ Wt' = [i \in 1..n |-> 1]     \* resize discards
       ELSE UNCHANGED <<J, Y, Wt>>
  /\ UNCHANGED <<est, A, b>>
Grew(n) == Cap < n

Fill(i, row, y) ==          \* getJ().row(i) = row; getY()(i) = y      (i in 1..dsz)
  /\ i \in 1..dsz
  /\ J' = [J EXCEPT ![i] = row] /\ Y' = [Y EXCEPT ![i] = y]
  /\ cur' = [cur EXCEPT ![i] = <<row, y>>]
  /\ UNCHANGED <<est, dsz, Wt, A, b, wdone>>
SetW(i, w) == i \in 1..dsz /\ Wt' = [Wt EXCEPT ![i] = w] /\ UNCHANGED <<est, dsz, J, Y, A, b, cur, wdone>>
SetPrecond(a, bb) == A' = a /\ b' = bb /\ UNCHANGED <<est, dsz, J, Y, Wt, cur, wdone>>

Live == 1..dsz
AllLiveFilled == \A i \in Live : J[i] # Garbage
(* z solves the normal equations of the live rows (weights w): sum_i w_i^2 J_i (J_i . z - Y_i) = 0 *)
Normal(z, w) == \A k \in 1..est : SumF([i \in Live |-> w[i] * w[i] * J[i][k] * (Dot(J[i], z) - Y[i])], dsz) = 0
Unweighted == [i \in 1..Cap |-> 1]
AbsV(v) == IF v < 0 THEN -v ELSE v
Sgn(v)  == IF v < 0 THEN -1 ELSE 1
Precondition(x) == \A k \in 1..est : A[k] # 0 /\ (x[k] - b[k]) % AbsV(A[k]) = 0
ZOf(x) == [k \in 1..est |-> (Sgn(A[k]) * (x[k] - b[k])) \div AbsV(A[k])]

(* estimateUsingSVD / estimateUsingCholeskyDecomposition: any minimiser of the CURRENT rows, mapped through A x + b *)
Estimate(x) == /\ dsz >= est                                   \* C07: data size from the estimate size upwards
               /\ AllLiveFilled /\ Precondition(x) /\ Normal(ZOf(x), Unweighted)
               /\ UNCHANGED lsvars
(* weightedEstimate: minimiser of sum (w_i r_i)^2; the live rows are left multiplied by their weights *)
WeightedEstimate(x) ==
  /\ dsz >= est /\ AllLiveFilled /\ Precondition(x) /\ Normal(ZOf(x), Wt)
  /\ J' = [i \in 1..Cap |-> IF i \in Live THEN [k \in 1..est |-> Wt[i] * J[i][k]] ELSE J[i]]
  /\ Y' = [i \in 1..Cap |-> IF i \in Live THEN Wt[i] * Y[i] ELSE Y[i]]
  /\ wdone' = TRUE
  /\ UNCHANGED <<est, dsz, Wt, A, b, cur>>

-----------------------------------------------------------------------------
CapacityCoversData == dsz <= Cap /\ Len(Y) = Cap /\ Len(Wt) = Cap /\ Len(cur) = dsz
(* C07 "only the rows of the current problem": once the user has filled every row of the current  *)
(* problem, the live prefix the solver reads is exactly that problem - no stale or garbage row.   *)
OnlyCurrentRows == (~wdone /\ \A i \in 1..dsz : cur[i] # Unset) => \A i \in Live : <<J[i], Y[i]>> = cur[i]
=============================================================================
