SPECIFICATION TraceSpec
INVARIANTS RigidFrame
POSTCONDITION TraceAccepted
CHECK_DEADLOCK FALSE
