---------------------------- MODULE Trace_Checkup ----------------------------
(* Trace validation of check-up histories and status/report aggregation calls *)
(* recorded by harness/drive_checkup.cpp (C18).                               *)
EXTENDS Checkup, TLC, Json, IOUtils
Tr == ndJsonDeserialize(IOEnv.TRACE)
VARIABLES l
tvars == <<ckvars, l>>
TraceInit == InitWith("eq", 0, 0, "stale") /\ l = 1
IsEvent(e) == l <= Len(Tr) /\ Tr[l].e = e /\ l' = l + 1

\* what getReport() shows after the call: status, which verdict the message carries, whether the message
\* names the checked quantity, and the printed info value (projected back onto an integer)
ObservedReport ==
  LET t == Tr[l] IN
  /\ t.status = report'.status
  /\ t.verdict = report'.verdict
  /\ (report'.verdict \notin {"none", "custom"}) => t.named
  /\ t.has = report'.value.has
  /\ report'.value.has => t.value = report'.value.k

TReset    == IsEvent("Reset") /\ SetUp(Tr[l].kind, Tr[l].a, Tr[l].b, Tr[l].init)
TEvaluate == IsEvent("evaluate") /\ Evaluate(<<Tr[l].k, Tr[l].ulp>>) /\ ObservedReport /\ Tr[l].ret = returned'
TTimeout  == IsEvent("timeout") /\ Timeout /\ ObservedReport
TObserve  == IsEvent("observe") /\ UNCHANGED ckvars /\ ObservedReport     \* getReport() right after construction
\* aggregation calls are pure: the state does not change, the logged result must be the spec's
TWorse  == IsEvent("worse") /\ UNCHANGED ckvars /\ Tr[l].r = Worse(Tr[l].a, Tr[l].b)
TWorst  == IsEvent("worst") /\ UNCHANGED ckvars /\ Tr[l].r = WorseStatus(Tr[l].list) /\ Tr[l].allok = AllOK(Tr[l].list)
TAppend == /\ IsEvent("append") /\ UNCHANGED ckvars
           /\ LET r == AppendReport([diags |-> Tr[l].d1, info |-> Tr[l].i1], [diags |-> Tr[l].d2, info |-> Tr[l].i2])
              IN r.diags = Tr[l].rd /\ r.info = Tr[l].ri
TraceNext == TReset \/ TEvaluate \/ TTimeout \/ TObserve \/ TWorse \/ TWorst \/ TAppend
TraceSpec == TraceInit /\ [][TraceNext]_tvars
TraceAccepted == TLCGet("stats").diameter - 1 = Len(Tr)
=============================================================================
