------------------------------ MODULE Trace_Boxes ------------------------------
(* Validation of calls recorded by harness/drive_boxes.cpp against Boxes (C20).   *)
(* All functions are pure: every event is checked on its own.                      *)
EXTENDS Boxes, TLC, Json, IOUtils
Tr == ndJsonDeserialize(IOEnv.TRACE)
VARIABLES l
TraceInit == l = 1
IsEvent(ev) == l <= Len(Tr) /\ Tr[l].e = ev /\ l' = l + 1
Dbl(v) == [a \in DOMAIN v |-> 2 * v[a]]

TReset == IsEvent("Reset")
\* box from an interval: reproduces the interval; membership by centre +- half extent
TAabb == /\ IsEvent("aabb")
         /\ LET t == Tr[l]  b == BoxOfInterval(t.l, t.u) IN
            /\ t.exact /\ t.bl = t.l /\ t.bu = t.u /\ t.c2 = b.c /\ t.h2 = b.h
            /\ t.inside = InsideAABB(b, t.p2)
            /\ t.insideI = (\A a \in DOMAIN t.l : 2 * t.l[a] <= t.p2[a] /\ t.p2[a] <= 2 * t.u[a])     \* Interval::inside
TObb  == /\ IsEvent("obb")
         /\ LET t == Tr[l] IN
            /\ Proper(t.Q, t.den)
            /\ t.exact /\ t.ac2 = t.c2                                              \* derived box keeps the centre
            /\ \A a \in DOMAIN t.c2 : t.ahden[a] = AabbHalfTimesDen(t.h2, t.Q, a)    \* derived half extents (x den)
            /\ (t.den = 1 \/ ~OnFaceOBB(t.c2, t.h2, t.Q, t.den, t.p2)) => t.inside = InsideOBB(t.c2, t.h2, t.Q, t.den, t.p2)
            /\ t.inside => \A a \in DOMAIN t.c2 : t.den * Abs(t.p2[a] - t.c2[a]) <= t.ahden[a]     \* a point of the box is in the derived box
TInclude == /\ IsEvent("include")
            /\ LET t == Tr[l]  h == Hull(t.l1, t.u1, t.l2, t.u2) IN t.exact /\ t.rl = h.l /\ t.ru = h.u
\* extents: minimum, maximum, sum (= mean * n) and largest side (= 1 / scale) of the points fed
TExtent == /\ IsEvent("extent")
           /\ LET t == Tr[l]  st == Extent(t.pts) IN
              /\ t.exact /\ t.n = st.n
              /\ t.hasMinMax => (t.mn = st.mn /\ t.mx = st.mx)
              /\ t.sm = st.sm
              /\ t.hasScale => (IF MaxSide(st) = 0 THEN t.inf ELSE ~t.inf /\ t.side = MaxSide(st))
\* one-dimensional intervals (the scalar specialisation): membership, hull, width, centre
TInterval1 == /\ IsEvent("interval1")
              /\ LET t == Tr[l] IN
                 /\ t.exact /\ t.inside = (2 * t.l1 <= t.p2 /\ t.p2 <= 2 * t.u1)
                 /\ t.rl = Min2(t.l1, t.l2) /\ t.ru = Max2(t.u1, t.u2) /\ t.w = t.u1 - t.l1 /\ t.c2 = t.l1 + t.u1
TGeneric == IsEvent("generic") /\ GenericOK(Tr[l])
TraceNext == TGeneric \/ TInterval1 \/ TReset \/ TAabb \/ TObb \/ TInclude \/ TExtent
TraceSpec == TraceInit /\ [][TraceNext]_l
TraceAccepted == TLCGet("stats").diameter - 1 = Len(Tr)
=============================================================================
