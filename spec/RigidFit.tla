------------------------------- MODULE RigidFit -------------------------------
(***************************************************************************)
(* Closed-form (SVD) rigid registration and the linearised point-to-plane  *)
(* estimator - properties C04 and C05, on exact lattices:                  *)
(* integer source points, motions with integer rotation matrix Q over a    *)
(* denominator den (signed permutations, Pythagorean rotations) and        *)
(* integer translations, so that targets Q s / den + t are exact.          *)
(***************************************************************************)
EXTENDS Integers, Sequences, FiniteSets

RECURSIVE SumF(_, _)
SumF(f, n) == IF n = 0 THEN 0 ELSE f[n] + SumF(f, n - 1)
Dot(u, v) == SumF([k \in 1..Len(u) |-> u[k] * v[k]], Len(u))
MatVec(Q, p) == [i \in 1..Len(Q) |-> Dot(Q[i], p)]
(* target of source point s under the motion (Q / den, t): den * target = Q s + den t *)
MapsTo(Q, den, t, s, g) == \A i \in 1..Len(s) : den * g[i] = MatVec(Q, s)[i] + den * t[i]
Consistent(Q, den, t, src, tgt) == \A k \in 1..Len(src) : MapsTo(Q, den, t, src[k], tgt[k])

Det2(Q) == Q[1][1] * Q[2][2] - Q[1][2] * Q[2][1]
Det3(Q) == Q[1][1] * (Q[2][2] * Q[3][3] - Q[2][3] * Q[3][2]) - Q[1][2] * (Q[2][1] * Q[3][3] - Q[2][3] * Q[3][1])
           + Q[1][3] * (Q[2][1] * Q[3][2] - Q[2][2] * Q[3][1])
Orthonormal(Q, den) == \A i, j \in 1..Len(Q) :
                          SumF([k \in 1..Len(Q) |-> Q[k][i] * Q[k][j]], Len(Q)) = (IF i = j THEN den * den ELSE 0)
Proper(Q, den) == Orthonormal(Q, den) /\ (IF Len(Q) = 2 THEN Det2(Q) = den * den ELSE Det3(Q) = den * den * den)
Improper(Q, den) == Orthonormal(Q, den) /\ (IF Len(Q) = 2 THEN Det2(Q) = -den * den ELSE Det3(Q) = -den * den * den)

Collinear2(a, b, c) == (b[1] - a[1]) * (c[2] - a[2]) = (b[2] - a[2]) * (c[1] - a[1])

(* C04: what the estimator must return for exact correspondences: linear part Q / den (proper), translation t *)
SvdAnswerOK(H, Q, den, t) ==
  /\ Proper(Q, den)
  /\ \A i, j \in 1..Len(Q) : H.lin[i][j] = Q[i][j]        \* logged linear part, times den
  /\ H.t = t

(* C05: point-to-plane rows [n, s x n] and residuals (t - s) . n; x solves the normal equations; the returned *)
(* small-motion matrix is identity + skew(omega) + translation                                                *)
NormalEq(rows, ys, x) == \A k \in 1..Len(x) : SumF([i \in 1..Len(rows) |-> rows[i][k] * (Dot(rows[i], x) - ys[i])], Len(rows)) = 0
Row2(s, n) == <<n[1], n[2], s[1] * n[2] - s[2] * n[1]>>
Row3(s, n) == <<n[1], n[2], n[3], s[2] * n[3] - s[3] * n[2], s[3] * n[1] - s[1] * n[3], s[1] * n[2] - s[2] * n[1]>>
SmallMotion2(x) == << <<1, -x[3], x[1]>>, <<x[3], 1, x[2]>>, <<0, 0, 1>> >>
SmallMotion3(x) == << <<1, -x[6], x[5], x[1]>>, <<x[6], 1, -x[4], x[2]>>, <<-x[5], x[4], 1, x[3]>>, <<0, 0, 0, 1>> >>
(* ---- generic (real-valued) instances: residuals measured by the harness in units of 1e-12, relative to the size of the data:     *)
(* noise-free correspondences of a random rigid motion (any axis, angle up to pi) must be recovered; noisy correspondences must    *)
(* give the same matrix as an independent Kabsch solution; the result is a proper rotation; consistent point-to-plane instances   *)
(* with random unit normals must return their parameter vector.  Bound: 1e-8 (double) / 2e-3 (float).                             *)
GenericBound(isFloat) == IF isFloat THEN 2000000000 ELSE 10000
GenericOK(res, isFloat) == \A i \in 1..Len(res) : res[i] <= GenericBound(isFloat)
=============================================================================
