---------------------------- MODULE SlidingStats ----------------------------
(***************************************************************************)
(* OnlineAverage / OnlineVariance (src/monitoring): statistics of the last *)
(* W samples fed since the last reset, each truncated toward zero to the   *)
(* configured precision (property C16).                                    *)
(*                                                                         *)
(* Samples are integers q in QUARTER precision units, so the truncated     *)
(* sample is Trunc0(q) = sign(q) * (|q| \div 4), an integer number of      *)
(* precision units; all observables are integers:                          *)
(*   average  = sum / (m * Len(win))                 m = 1 / precision     *)
(*   variance = VarNum / (m^2 * W * (W-1))           once available        *)
(* Abstract layer: win (FIFO).  Code-like layer: data, idx, sum, sumsq.    *)
(***************************************************************************)
EXTENDS Integers, Sequences

VARIABLES W,      \* window size (>= 1; >= 2 when the variance is observed)
          win,    \* the last min(cnt, W) truncated samples since the last reset, oldest first
          cnt,    \* samples since the last reset
          data, idx, sum, sumsq      \* vector, replacement index and running sums of the code

ssvars == <<W, win, cnt, data, idx, sum, sumsq>>

Trunc0(q) == IF q >= 0 THEN q \div 4 ELSE -((-q) \div 4)

RECURSIVE SumSeq(_)
SumSeq(s) == IF s = <<>> THEN 0 ELSE Head(s) + SumSeq(Tail(s))
Squares(s) == [k \in DOMAIN s |-> s[k] * s[k]]

InitWith(w) == /\ W = w /\ win = <<>> /\ cnt = 0
               /\ data = <<>> /\ idx = 0 /\ sum = 0 /\ sumsq = 0
SetUp(w)    == /\ W' = w /\ win' = <<>> /\ cnt' = 0
               /\ data' = <<>> /\ idx' = 0 /\ sum' = 0 /\ sumsq' = 0

Update(q) ==
  LET x == Trunc0(q) IN
  /\ win' = IF Len(win) < W THEN Append(win, x) ELSE Append(Tail(win), x)
  /\ cnt' = cnt + 1
  /\ IF Len(data) # W
       THEN /\ data' = Append(data, x)
            /\ sum' = sum + x /\ sumsq' = sumsq + x * x
       ELSE /\ data' = [data EXCEPT ![idx + 1] = x]
            /\ sum' = sum + x - data[idx + 1]
            /\ sumsq' = sumsq + x * x - data[idx + 1] * data[idx + 1]
  /\ idx' = (idx + 1) % W
  /\ W' = W

Reset == /\ win' = <<>> /\ cnt' = 0
         /\ data' = <<>> /\ idx' = 0 /\ sum' = 0 /\ sumsq' = 0
         /\ W' = W

(* setWindowSize(w) on an empty estimator (fresh, or just reset): the window size that counts is the one configured last *)
Resize(w) == /\ cnt = 0 /\ W' = w
             /\ UNCHANGED <<win, cnt, data, idx, sum, sumsq>>

(* observables *)
Available == cnt >= W
AvgNum    == SumSeq(win)                                   \* average * m * Len(win)
VarNum    == W * SumSeq(Squares(win)) - SumSeq(win) * SumSeq(win)   \* variance * m^2 * W * (W-1)

-----------------------------------------------------------------------------
(* the code-like layer implements the FIFO: *)
Refines ==
  /\ Len(win) = (IF cnt < W THEN cnt ELSE W)
  /\ sum = SumSeq(win)
  /\ sumsq = SumSeq(Squares(win))
  /\ Len(data) = Len(win)
  /\ IF Len(data) < W THEN data = win /\ idx = Len(data) % W
                      ELSE \A k \in 1..W : win[k] = data[((idx + k - 1) % W) + 1]

(* the unbiased sample variance is never negative *)
VarNonNegative == Available => VarNum >= 0
=============================================================================
