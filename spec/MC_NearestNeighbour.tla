-------------------------- MODULE MC_NearestNeighbour --------------------------
(* Laws of the relational specification over every small point multiset / query / k: an answer exists,  *)
(* every valid k-answer lists exactly the k smallest distances (the sorted distance multiset prefix),    *)
(* and its first entry is a valid single-neighbour answer.                                               *)
EXTENDS NearestNeighbour, TLC
CONSTANTS Coords, QCoords, MaxN
VARIABLES dummy
Init == dummy = 0
Next == UNCHANGED dummy
Pts2 == {<<x, y>> : x \in Coords, y \in Coords}
Qs2  == {<<x, y>> : x \in QCoords, y \in QCoords}
Sets == UNION {[1..n -> Pts2] : n \in 1..MaxN}
Idx(n, k) == {s \in [1..k -> 0..(n - 1)] : \A a, b \in 1..k : a # b => s[a] # s[b]}
\* number of points strictly closer than d / at most d: the k-th smallest distance d satisfies  #closer < k <= #atmost
Closer(P, q, d) == Cardinality({j \in 1..Len(P) : D2(P[j], q) < d})
AtMost(P, q, d) == Cardinality({j \in 1..Len(P) : D2(P[j], q) <= d})
Laws ==
  \A P \in Sets : \A q \in Qs2 :
    /\ \E i \in 0..(Len(P) - 1) : ValidNN(P, q, i, D2(P[i + 1], q))
    /\ \A k \in 1..Len(P) :
         /\ \E s \in Idx(Len(P), k) : \E o \in Idx(k, k) :
               LET t == [m \in 1..k |-> s[o[m] + 1]] IN ValidKNN(P, q, k, t, [m \in 1..k |-> D2(P[t[m] + 1], q)])
         /\ \A s \in Idx(Len(P), k) :
               LET d == [m \in 1..k |-> D2(P[s[m] + 1], q)] IN
               ValidKNN(P, q, k, s, d) =>
                  /\ ValidNN(P, q, s[1], d[1])
                  /\ \A m \in 1..k : Closer(P, q, d[m]) < m /\ m <= AtMost(P, q, d[m])     \* d[m] is the m-th smallest distance
LawsHold == Laws
=============================================================================
