----------------------------- MODULE MC_LsqBuffers -----------------------------
(* Bounded exhaustive exploration of the buffer life-cycle: every history of problems of varying   *)
(* sizes on one solver; at every estimate the set of minimisers read from the buffers equals the    *)
(* set of minimisers of the rows filled for the current problem (a fresh solver's answer).           *)
EXTENDS LsqBuffers, TLC
CONSTANTS Ests, MaxData, Vals, Xs, MaxOps
VARIABLES ops, lastX
mcvars == <<lsvars, ops, lastX>>
Rows == IF est = 1 THEN {<<v>> : v \in Vals} ELSE {<<u, v>> : u \in Vals, v \in Vals}
XSet == IF est = 1 THEN {<<v>> : v \in Xs} ELSE {<<u, v>> : u \in Xs, v \in Xs}
Init == (\E e \in Ests : LsInitWith(e)) /\ ops = 0 /\ lastX = <<>>
Op == ops < MaxOps /\ ops' = ops + 1
DoSetData == Op /\ (\E n \in 1..MaxData : SetDataSize(n)) /\ lastX' = <<>>
DoFill == Op /\ (\E i \in 1..dsz, r \in Rows, y \in Vals : Fill(i, r, y)) /\ lastX' = <<>>
DoSetW == Op /\ (\E i \in 1..dsz, w \in {2} : SetW(i, w)) /\ lastX' = <<>>
DoEstimate == Op /\ (\E x \in XSet : Estimate(x) /\ lastX' = x)
DoWeighted == Op /\ (\E x \in XSet : WeightedEstimate(x) /\ lastX' = x)
Next == DoSetData \/ DoFill \/ DoSetW \/ DoEstimate \/ DoWeighted
Spec == Init /\ [][Next]_mcvars
\* fresh-solver oracle: minimisers of the ghost problem `cur` (rows filled for the current problem)
CurFilled == \A i \in 1..dsz : cur[i] # Unset
FreshNormal(z) == \A k \in 1..est : SumF([i \in 1..dsz |-> cur[i][1][k] * (Dot(cur[i][1], z) - cur[i][2])], dsz) = 0
SameAsFresh == (lastX # <<>> /\ CurFilled /\ ~wdone) => FreshNormal(lastX)
=============================================================================
