----------------------------- MODULE MC_LsqBuffers -----------------------------
(* Bounded exhaustive exploration of the buffer life-cycle: every history of problems of varying   *)
(* sizes on one solver; at every estimate the set of minimisers read from the buffers equals the    *)
(* set of minimisers of the rows filled for the current problem (a fresh solver's answer).           *)
EXTENDS LsqBuffers, TLC, Json
CONSTANTS Ests, MaxData, Vals, Xs, MaxOps
VARIABLES ops, lastX, hist         \* hist: ghost path (hidden by the VIEW) replayed on the real solver
mcvars == <<lsvars, ops, lastX, hist>>
View == <<lsvars, ops, lastX>>
Rows == IF est = 1 THEN {<<v>> : v \in Vals} ELSE {<<u, v>> : u \in Vals, v \in Vals}
XSet == IF est = 1 THEN {<<v>> : v \in Xs} ELSE {<<u, v>> : u \in Xs, v \in Xs}
Init == (\E e \in Ests : LsInitWith(e)) /\ ops = 0 /\ lastX = <<>> /\ hist = <<>>
Op == ops < MaxOps /\ ops' = ops + 1
DoSetData == Op /\ (\E n \in 1..MaxData : SetDataSize(n) /\ hist' = Append(hist, [o |-> "D", n |-> n])) /\ lastX' = <<>>
DoFill == Op /\ (\E i \in 1..dsz, r \in Rows, y \in Vals : Fill(i, r, y) /\ hist' = Append(hist, [o |-> "F", i |-> i, j |-> r, y |-> y])) /\ lastX' = <<>>
DoSetW == Op /\ (\E i \in 1..dsz, w \in {2} : SetW(i, w) /\ hist' = Append(hist, [o |-> "W", i |-> i, w |-> w])) /\ lastX' = <<>>
\* C07 is stated for full-rank design matrices: det(J^T J) # 0 over the live rows (estimate sizes 1..2 here)
G(i, k) == SumF([r \in Live |-> J[r][i] * J[r][k]], dsz)
FullRank == AllLiveFilled /\ dsz >= est /\ (IF est = 1 THEN G(1, 1) # 0 ELSE G(1, 1) * G(2, 2) - G(1, 2) * G(1, 2) # 0)
DoEstimate == Op /\ FullRank /\ (\E x \in XSet : Estimate(x) /\ lastX' = x) /\ hist' = Append(hist, [o |-> "E"])
DoWeighted == Op /\ FullRank /\ (\E x \in XSet : WeightedEstimate(x) /\ lastX' = x) /\ hist' = Append(hist, [o |-> "WE"])
Next == DoSetData \/ DoFill \/ DoSetW \/ DoEstimate \/ DoWeighted
Spec == Init /\ [][Next]_mcvars
\* Gen: states right after an estimate (the estimates are what the replay observes); the path carries no answer - the real
\* solver's answer is validated by Trace_LsqBuffers
EmitState == (lastX # <<>>) => PrintT(ToJson([est |-> est, path |-> hist]))
\* fresh-solver oracle: minimisers of the ghost problem `cur` (rows filled for the current problem)
CurFilled == \A i \in 1..dsz : cur[i] # Unset
FreshNormal(z) == \A k \in 1..est : SumF([i \in 1..dsz |-> cur[i][1][k] * (Dot(cur[i][1], z) - cur[i][2])], dsz) = 0
SameAsFresh == (lastX # <<>> /\ CurFilled /\ ~wdone) => FreshNormal(lastX)
=============================================================================
