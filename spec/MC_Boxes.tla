------------------------------- MODULE MC_Boxes -------------------------------
(* The sentences of C20 evaluated by TLC over a whole bounded domain (pure functions: the *)
(* "state graph" is the finite set of inputs).                                            *)
EXTENDS Boxes, TLC
CONSTANTS DimC, CR, HR, PR        \* dimension, centre range, half-extent range, point range (undoubled integers)
VARIABLES dummy
CRange == -2..2
PRange == -3..3
CRange3 == -1..1
PRange3 == -2..2
CRange3q == 0..1
PRange3q == -1..1
Init == dummy = 0
Next == UNCHANGED dummy

Tup(S) == IF DimC = 2 THEN {<<x, y>> : x \in S, y \in S} ELSE {<<x, y, z>> : x \in S, y \in S, z \in S}
Dbl(v) == [a \in DOMAIN v |-> 2 * v[a]]
\* rotations: all proper signed permutations, plus Pythagorean rotations (3,4,5) about the last axis
PermMats == IF DimC = 2
  THEN {<<<<1, 0>>, <<0, 1>>>>, <<<<0, -1>>, <<1, 0>>>>, <<<<-1, 0>>, <<0, -1>>>>, <<<<0, 1>>, <<-1, 0>>>>}
  ELSE {q \in {<<r1, r2, r3>> : r1 \in {<<1,0,0>>, <<-1,0,0>>, <<0,1,0>>, <<0,-1,0>>, <<0,0,1>>, <<0,0,-1>>},
                                 r2 \in {<<1,0,0>>, <<-1,0,0>>, <<0,1,0>>, <<0,-1,0>>, <<0,0,1>>, <<0,0,-1>>},
                                 r3 \in {<<1,0,0>>, <<-1,0,0>>, <<0,1,0>>, <<0,-1,0>>, <<0,0,1>>, <<0,0,-1>>}} : Proper(q, 1)}
PythMats == IF DimC = 2 THEN {<<<<3, -4>>, <<4, 3>>>>, <<<<4, 3>>, <<-3, 4>>>>, <<<<-3, -4>>, <<4, -3>>>>}
            ELSE {<<<<3, -4, 0>>, <<4, 3, 0>>, <<0, 0, 5>>>>, <<<<5, 0, 0>>, <<0, 4, 3>>, <<0, -3, 4>>>>, <<<<-4, 0, 3>>, <<0, 5, 0>>, <<-3, 0, -4>>>>}

Boxes2 == {[c |-> Dbl(c), h |-> Dbl(h)] : c \in Tup(CR), h \in Tup(HR)}
LawRotationsProper == (\A q \in PermMats : Proper(q, 1)) /\ (\A q \in PythMats : Proper(q, 5))
LawIntervalRoundTrip == \A b \in Boxes2 : LET i == IntervalOfBox(b) IN BoxOfInterval(i.l, i.u) = b
LawInsideAABB == \A b \in Boxes2 : \A p \in Tup(PR) :
                   InsideAABB(b, Dbl(p)) <=> (LET i == IntervalOfBox(b) IN \A a \in 1..DimC : i.l[a] <= p[a] /\ p[a] <= i.u[a])
LawEnclosingTight == \A b \in Boxes2 : /\ \A q \in PermMats : Enclosing(b.c, b.h, q) /\ Tight(b.c, b.h, q)
                                       /\ \A q \in PythMats : Enclosing(b.c, b.h, q) /\ Tight(b.c, b.h, q)
\* a point is inside the oriented box iff it is a convex combination position in the box frame; checked against corners:
LawObbContainsCorners == \A b \in Boxes2 : \A q \in PermMats : \A s \in Signs(DimC) :
                            InsideOBB(b.c, b.h, q, 1, [a \in 1..DimC |-> b.c[a] + Corner(b.c, b.h, q, s)[a]])
LawHull == \A l1 \in Tup(PR), l2 \in Tup(PR) : \A w1 \in Tup(HR), w2 \in Tup(HR) :
             LET u1 == [a \in 1..DimC |-> l1[a] + w1[a]]  u2 == [a \in 1..DimC |-> l2[a] + w2[a]]  hl == Hull(l1, u1, l2, u2) IN
             \A a \in 1..DimC : /\ hl.l[a] <= l1[a] /\ hl.l[a] <= l2[a] /\ hl.l[a] \in {l1[a], l2[a]}
                                /\ hl.u[a] >= u1[a] /\ hl.u[a] >= u2[a] /\ hl.u[a] \in {u1[a], u2[a]}
PtSeqs == UNION {[1..k -> Tup(PR)] : k \in 1..(IF DimC = 2 THEN 3 ELSE 2)}
LawExtrema == \A s \in PtSeqs : TrueExtrema(s)
Laws == LawRotationsProper /\ LawIntervalRoundTrip /\ LawInsideAABB /\ LawEnclosingTight /\ LawObbContainsCorners /\ LawHull /\ LawExtrema
LawsHold == Laws            \* as an invariant on the dummy state
=============================================================================
