---------------------------- MODULE Trace_EnuFrame ----------------------------
(* Trace validation of ENUConverter histories recorded by harness/drive_enu.cpp (C02). *)
EXTENDS EnuFrame, TLC, Json, IOUtils
Tr == ndJsonDeserialize(IOEnv.TRACE)
VARIABLES l
tvars == <<envars, l>>
TraceInit == EnInit /\ l = 1
IsEvent(ev) == l <= Len(Tr) /\ Tr[l].e = ev /\ l' = l + 1
Abs(x) == IF x < 0 THEN -x ELSE x
Near(u, v, tol) == \A i \in 1..3 : Abs(u[i] - v[i]) <= tol          \* millimetres
A0 == 6378137                                                        \* GRS80 semi-major axis (equatorial frames only)

TReset == /\ IsEvent("Reset")
          /\ IF Tr[l].anchor THEN SetAnchor(Tr[l].la, Tr[l].lo, Tr[l].h) ELSE EnSetUp
          /\ Tr[l].anch = anchored'
TSetAnchor == IsEvent("setAnchor") /\ SetAnchor(Tr[l].la, Tr[l].lo, Tr[l].h) /\ Tr[l].anch = anchored'
TResetCall == IsEvent("reset") /\ Reset /\ Tr[l].anch = anchored'
\* toENU(geodetic): self-anchoring; points on the anchor's vertical map to (0, 0, height difference)
TToEnuGeo == /\ IsEvent("toEnuGeo") /\ ToEnuGeo(Tr[l].la, Tr[l].lo, Tr[l].h) /\ Tr[l].anch = anchored' /\ anchored'
             /\ Tr[l].h > -100000 /\ Tr[l].h < 100000                      \* the anchor's height is a finite number of metres
             /\ OnVertical(Tr[l].la, Tr[l].lo) => Near(Tr[l].mm, <<0, 0, 1000 * (Tr[l].h - hgt')>>, 1)
\* toECEF(p): displacement from the frame origin = East x + North y + Up z   (logged times Den)
TToEcef == /\ IsEvent("toEcef") /\ anchored /\ UNCHANGED envars
           /\ Tr[l].exact /\ Tr[l].dq = ToEcefDisp(Tr[l].p)
\* toENU(ecef) of the frame origin displaced by East x + North y + Up z is (x, y, z)
TToEnuEcef == IsEvent("toEnuEcef") /\ anchored /\ UNCHANGED envars /\ Near(Tr[l].mm, [i \in 1..3 |-> 1000 * Tr[l].p[i]], 1)
\* toWGS84 of a point on the local vertical: same latitude / longitude, height + z
TToGeo == /\ IsEvent("toGeo") /\ anchored /\ UNCHANGED envars
          /\ Tr[l].latOk /\ Tr[l].lonOk /\ Abs(Tr[l].hmm - 1000 * (hgt + Tr[l].z)) <= 1
\* toWGS84 then toENU(geodetic) of any local point gives the point back
TRound == IsEvent("roundGeo") /\ anchored /\ UNCHANGED envars /\ Near(Tr[l].mm, [i \in 1..3 |-> 1000 * Tr[l].p[i]], 1)
\* equatorial frames: the frame origin is (a + h) (cos lon, sin lon, 0)  (logged times the longitude denominator)
TOrigin == /\ IsEvent("origin") /\ anchored /\ UNCHANGED envars
           /\ lat = <<1, 0, 1>> => (Tr[l].exact /\ Tr[l].tq = <<(A0 + hgt) * C(lon), (A0 + hgt) * S(lon), 0>>)
\* a general anchor (any latitude within +-85 deg, any longitude): state machine step SetAnchor, relations by residuals
TGeneric == /\ IsEvent("generic") /\ UNCHANGED envars /\ ResidualsOK(Tr[l])
\* continuing on a copy (copy construction, copy assignment, growth of a vector of converters): a copy is in the state of its source,
\* anchored or not
TCopy == IsEvent("copy") /\ UNCHANGED envars /\ Tr[l].anch = anchored
TraceNext == TCopy \/ TGeneric \/ TReset \/ TSetAnchor \/ TResetCall \/ TToEnuGeo \/ TToEcef \/ TToEnuEcef \/ TToGeo \/ TRound \/ TOrigin
TraceSpec == TraceInit /\ [][TraceNext]_tvars
TraceAccepted == TLCGet("stats").diameter - 1 = Len(Tr)
=============================================================================
