----------------------------- MODULE ScrollGrid -----------------------------
(***************************************************************************)
(* WrappableGrid<T,DIM> (include/.../containers/grid/WrappableGrid.hpp)    *)
(* over Grid<T,DIM>: a fixed-size window over an unbounded map which each  *)
(* translation slides by an integer cell offset (property C15).            *)
(*                                                                         *)
(* Two layers, updated by the same actions:                                *)
(*   abstract : win[i]  value read at logical cell i   (what C15 states)   *)
(*   code-like: buf[p]  circular storage, off = per-axis index offset      *)
(* and two ghosts: acc (accumulated offset) and log (operation history).   *)
(***************************************************************************)
EXTENDS Integers, Sequences, FiniteSets

VARIABLES dim,      \* 2 or 3
          n,        \* tuple of sizes, n[a] >= 1
          init,     \* initial window contents (function Cells -> value)
          win, off, buf, acc, log, keepLog

sgvars == <<dim, n, init, win, off, buf, acc, log, keepLog>>

Axes      == 1..dim
CellsOf(d, nn) == IF d = 2 THEN {<<x, y>> : x \in 0..nn[1] - 1, y \in 0..nn[2] - 1}
                           ELSE {<<x, y, z>> : x \in 0..nn[1] - 1, y \in 0..nn[2] - 1, z \in 0..nn[3] - 1}
Cells     == CellsOf(dim, n)
Zero      == [a \in Axes |-> 0]
VAdd(u, v) == [a \in Axes |-> u[a] + v[a]]
VSub(u, v) == [a \in Axes |-> u[a] - v[a]]
Mod(x, m) == x % m                      \* TLA+ % is the mathematical modulus (result in 0..m-1)
InWindow(c) == \A a \in Axes : c[a] >= 0 /\ c[a] < n[a]
Phys(i)   == [a \in Axes |-> Mod(i[a] + off[a], n[a])]
NCells    == IF dim = 2 THEN n[1] * n[2] ELSE n[1] * n[2] * n[3]
\* linear order used by the harness when it logs the whole window: x fastest
Coord(k)  == IF dim = 2 THEN <<k % n[1], k \div n[1]>>
                        ELSE <<k % n[1], (k \div n[1]) % n[2], k \div (n[1] * n[2])>>
Lin(f)    == [k \in 1..NCells |-> f[Coord(k - 1)]]

\* construct + initial writes through operator()
InitWith(d, nn, contents, kl) ==
  /\ dim = d /\ n = nn /\ keepLog = kl
  /\ init = contents /\ win = contents /\ buf = contents
  /\ off = [a \in 1..d |-> 0] /\ acc = [a \in 1..d |-> 0] /\ log = <<>>
SetUp(d, nn, contents, kl) ==
  /\ dim' = d /\ n' = nn /\ keepLog' = kl
  /\ init' = contents /\ win' = contents /\ buf' = contents
  /\ off' = [a \in 1..d |-> 0] /\ acc' = [a \in 1..d |-> 0] /\ log' = <<>>

Logged(entry) == log' = IF keepLog THEN Append(log, entry) ELSE log

(* translate(d, e): the window slides by d; surviving cells keep their value, *)
(* entering cells read e.                                                      *)
Translate(d, e) ==
  /\ win' = [i \in Cells |-> IF InWindow(VAdd(i, d)) THEN win[VAdd(i, d)] ELSE e]
     \* code-like layer: blank the storage slabs of the cells that leave, then shift the offset
  /\ buf' = [p \in Cells |->
               LET i == [a \in Axes |-> Mod(p[a] - off[a], n[a])]      \* logical cell stored at p
               IN IF InWindow(VSub(i, d)) THEN buf[p] ELSE e]
  /\ off' = [a \in Axes |-> Mod(off[a] + d[a], n[a])]
  /\ acc' = VAdd(acc, d)
  /\ Logged([op |-> "T", d |-> d, e |-> e, acc |-> VAdd(acc, d)])
  /\ UNCHANGED <<dim, n, init, keepLog>>

Write(i, v) ==
  /\ i \in Cells
  /\ win' = [win EXCEPT ![i] = v]
  /\ buf' = [buf EXCEPT ![Phys(i)] = v]
  /\ Logged([op |-> "W", i |-> i, v |-> v, acc |-> acc])
  /\ UNCHANGED <<dim, n, init, off, acc, keepLog>>

(* Grid::setValue(v) fills the storage; it is a write of every cell *)
Fill(v) ==
  /\ win' = [i \in Cells |-> v]
  /\ buf' = [p \in Cells |-> v]
  /\ Logged([op |-> "F", v |-> v, acc |-> acc])
  /\ UNCHANGED <<dim, n, init, off, acc, keepLog>>

-----------------------------------------------------------------------------
(* Properties *)

Refines == \A i \in Cells : buf[Phys(i)] = win[i]

OffsetIsAccumulated == \A a \in Axes : off[a] = Mod(acc[a], n[a])

(* Independent formulation of the sentence of C15 in *map* coordinates.  The  *)
(* cell i of the final window is map location m = i + acc.  Let k0 be the last *)
(* time at which m was outside the window (none: -1).  The cell reads the last *)
(* write to m after k0; failing that the empty value of translation k0+1 (the  *)
(* one that brought m in); failing that its initial value.                     *)
AccAt(k)      == IF k = 0 THEN Zero ELSE log[k].acc
InWinAt(m, k) == InWindow(VSub(m, AccAt(k)))
MaxOf(S)      == CHOOSE x \in S : \A y \in S : y <= x
Expected(i) ==
  LET m    == VAdd(i, acc)
      outs == {k \in 0..Len(log) : ~InWinAt(m, k)}
      k0   == IF outs = {} THEN -1 ELSE MaxOf(outs)
      ws   == {k \in (k0 + 1)..Len(log) : k >= 1 /\
                 \/ log[k].op = "W" /\ VAdd(log[k].i, AccAt(k)) = m
                 \/ log[k].op = "F"}
  IN IF ws # {} THEN log[MaxOf(ws)].v
     ELSE IF k0 = -1 THEN init[m] ELSE log[k0 + 1].e

HistoryMeaning == keepLog => \A i \in Cells : win[i] = Expected(i)

=============================================================================
