------------------------------- MODULE EnuFrame -------------------------------
(***************************************************************************)
(* ENUConverter (src/geodesy/ENUConverter.cpp) - property C02.             *)
(* State: anchored?, and the anchor (latitude, longitude, height).         *)
(* Geometry is exact on frames whose latitude and longitude are LATTICE    *)
(* angles <<c, s, d>> (cos = c/d, sin = s/d, c^2 + s^2 = d^2: quarter      *)
(* turns and Pythagorean angles).  There the east / north / up triad has   *)
(* rational entries; the module keeps it as an integer matrix over the     *)
(* common denominator Den = dlat * dlon.  The anchor's ECEF position t is  *)
(* an observation (its formula is property C01), except on the equator     *)
(* where it is (a + h) (cos lon, sin lon, 0).                               *)
(***************************************************************************)
EXTENDS Integers, Sequences, FiniteSets

VARIABLES anchored, lat, lon, hgt       \* lat, lon: lattice angles <<c, s, d>>; hgt in metres (integer)
envars == <<anchored, lat, lon, hgt>>

C(a) == a[1]
S(a) == a[2]
Dn(a) == a[3]
IsAngle(a) == Dn(a) > 0 /\ C(a) * C(a) + S(a) * S(a) = Dn(a) * Dn(a)
Den == Dn(lat) * Dn(lon)
(* columns of the ENU -> ECEF rotation, times Den (C02: first axis east, second north, third up) *)
East  == << -S(lon) * Dn(lat),           C(lon) * Dn(lat),            0 >>
North == << -S(lat) * C(lon),           -S(lat) * S(lon),             C(lat) * Dn(lon) >>
Up    == <<  C(lat) * C(lon),            C(lat) * S(lon),             S(lat) * Dn(lon) >>
Dot3(u, v) == u[1] * v[1] + u[2] * v[2] + u[3] * v[3]
Cross(u, v) == << u[2] * v[3] - u[3] * v[2], u[3] * v[1] - u[1] * v[3], u[1] * v[2] - u[2] * v[1] >>
(* local point p (integers, metres) -> ECEF displacement from the anchor, times Den *)
ToEcefDisp(p) == [i \in 1..3 |-> East[i] * p[1] + North[i] * p[2] + Up[i] * p[3]]
(* ECEF displacement w (times Den) -> local point, times Den^2 ... the inverse of a rotation is its transpose *)
ToEnuOfDisp(w) == << Dot3(East, w), Dot3(North, w), Dot3(Up, w) >>          \* = Den^2 * p  when w = ToEcefDisp(p)

EnInit == anchored = FALSE /\ lat = <<1, 0, 1>> /\ lon = <<1, 0, 1>> /\ hgt = 0
EnSetUp == anchored' = FALSE /\ lat' = <<1, 0, 1>> /\ lon' = <<1, 0, 1>> /\ hgt' = 0

SetAnchor(la, lo, h) == anchored' = TRUE /\ lat' = la /\ lon' = lo /\ hgt' = h
Reset == anchored' = FALSE /\ UNCHANGED <<lat, lon, hgt>>
(* toENU(geodetic g): an un-anchored converter anchors itself on g; the result for a point z metres above the *)
(* (possibly new) anchor on its vertical is (0, 0, z)                                                         *)
ToEnuGeo(la, lo, h) ==
  IF anchored THEN UNCHANGED envars ELSE SetAnchor(la, lo, h)
OnVertical(la, lo) == la = lat' /\ lo = lon'              \* evaluated after the (possible) self-anchoring

-----------------------------------------------------------------------------
(* C02: the frame transform is a proper rotation - orthonormal, right-handed, up along the ellipsoid normal *)
RigidFrame ==
  /\ IsAngle(lat) /\ IsAngle(lon)
  /\ Dot3(East, East) = Den * Den /\ Dot3(North, North) = Den * Den /\ Dot3(Up, Up) = Den * Den
  /\ Dot3(East, North) = 0 /\ Dot3(East, Up) = 0 /\ Dot3(North, Up) = 0
  /\ Cross(East, North) = [i \in 1..3 |-> Den * Up[i]]            \* east x north = up: determinant +1
  /\ East[3] = 0                                                  \* east is horizontal
  /\ North[3] >= 0                                                \* north has a non-negative polar component (|lat| < 90 deg)
(* mutual inverses and isometry on the lattice: p -> ECEF displacement -> p, lengths preserved *)
InverseOn(p) == ToEnuOfDisp(ToEcefDisp(p)) = [i \in 1..3 |-> Den * Den * p[i]]
IsometryOn(p) == Dot3(ToEcefDisp(p), ToEcefDisp(p)) = Den * Den * Dot3(p, p)
(* ---- anchors at GENERAL latitude / longitude (irrational triad): the property's relations are checked on residuals measured  *)
(* by the harness in units of 0.01 mm (ints): the reference maps to the origin, h metres above it to (0, 0, h), a point slightly  *)
(* east / north of the anchor has positive first / second coordinate and the other one small, distances between local points   *)
(* equal ECEF distances, and every conversion pair is an inverse pair.  Tolerance: 1 mm = 100 units.                            *)
ResidualsOK(t) ==
  /\ t.originRes <= 100 /\ t.upRes <= 100 /\ t.isoRes <= 100 /\ t.invEcefRes <= 100 /\ t.invGeoRes <= 100
  /\ t.eastOK /\ t.northOK /\ t.properOK
=============================================================================
