SPECIFICATION TraceSpec
INVARIANTS Coherent
POSTCONDITION TraceAccepted
CHECK_DEADLOCK FALSE
