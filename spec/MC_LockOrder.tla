------------------------------ MODULE MC_LockOrder ------------------------------
EXTENDS LockOrder
T3 == {"w", "h", "r"}
Prog == [t \in T3 |-> IF t = "w" THEN <<"evaluate", "evaluate">> ELSE IF t = "h" THEN <<"heartbeat", "heartbeat">> ELSE <<"getReport", "getReport">>]
\* as designed (after the fix: commits): outer mutex first, then the monitor's (which nests the shared variable's), then the check-up's
NestAsDesigned == [m \in {"evaluate", "heartbeat", "getReport"} |->
   CASE m = "evaluate" -> <<"outer", "monitor", "sharedvar">>      \* (the check-up's mutex is taken after the monitor's is released: modelled by a 2nd call)
     [] m = "heartbeat" -> <<"outer", "monitor", "sharedvar">>
     [] OTHER -> <<"outer", "checkup">>]
\* a deviation that nests two mutexes in opposite orders on two paths: TLC must find the deadlock / the inconsistent order
NestInverted == [m \in {"evaluate", "heartbeat", "getReport"} |->
   CASE m = "evaluate" -> <<"outer", "monitor">>
     [] m = "heartbeat" -> <<"monitor", "outer">>
     [] OTHER -> <<"outer", "checkup">>]
=============================================================================
