------------------------------ MODULE MC_Checkup ------------------------------
EXTENDS Checkup, TLC, Json
CONSTANTS Kinds, As, Bs, Near      \* values within +-Near of each threshold, each with -1/0/+1 ulp
VARIABLES hist, last, ini0
mcvars == <<ckvars, hist, last, ini0>>
View == <<ckvars, last, ini0>>

Thresholds == IF kind = "rel" THEN {ta, tb} ELSE {ta - tb, ta + tb, ta}
Values == {<<k, d>> : k \in UNION {(t - Near)..(t + Near) : t \in Thresholds}, d \in {-1, 0, 1}}

\* reliability thresholds are explored in either order (the constructor accepts low > high: "ERROR below the low threshold" wins)
Init == /\ \E kd \in Kinds, a \in As, b \in Bs, ini \in {"stale", "custom0", "custom2"} :
             /\ (kd = "rel" => ini = "stale")
             /\ InitWith(kd, a, b, ini) /\ ini0 = ini
        /\ hist = <<>> /\ last = <<0, 0>>
DoEvaluate == \E v \in Values : Evaluate(v) /\ last' = v /\ ini0' = ini0 /\ hist' = Append(hist, [e |-> "evaluate", k |-> v[1], ulp |-> v[2]])
DoTimeout  == Timeout /\ last' = last /\ ini0' = ini0 /\ hist' = Append(hist, [e |-> "timeout"])
Next == DoEvaluate \/ DoTimeout
Spec == Init /\ [][Next]_mcvars

ReturnedIsStored == (returned # None /\ report.verdict # "timeout") => returned = report.status
ThresholdMeaning == (report.value.has) => (report.value.k = last[1] /\ Meaning(last, report.status))
EmitState == PrintT(ToJson([kind |-> kind, a |-> ta, b |-> tb, near |-> Near, path |-> hist, ini |-> ini0]))
ASSUME Laws
=============================================================================
