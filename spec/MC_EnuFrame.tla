------------------------------ MODULE MC_EnuFrame ------------------------------
(* every lattice frame x every call sequence of length <= MaxOps; RigidFrame in every state, inverse / isometry laws *)
EXTENDS EnuFrame, TLC
CONSTANTS Heights, MaxOps, Probe
VARIABLES ops
ProbeSet == {-3, 0, 2, 5}      \* the maps are linear: magnitude adds nothing but overflow
mcvars == <<envars, ops>>
Lats == {<<1, 0, 1>>, <<4, 3, 5>>, <<4, -3, 5>>, <<3, 4, 5>>, <<3, -4, 5>>, <<24, 7, 25>>, <<7, -24, 25>>}
Lons == {<<1, 0, 1>>, <<0, 1, 1>>, <<-1, 0, 1>>, <<0, -1, 1>>, <<3, 4, 5>>, <<-4, 3, 5>>, <<-3, -4, 5>>, <<4, -3, 5>>, <<-7, 24, 25>>}
Init == EnInit /\ ops = 0
Op == ops < MaxOps /\ ops' = ops + 1
DoSetAnchor == Op /\ \E la \in Lats, lo \in Lons, h \in Heights : SetAnchor(la, lo, h)
DoReset == Op /\ Reset
DoToEnuGeo == Op /\ \E la \in Lats, lo \in Lons, h \in Heights : ToEnuGeo(la, lo, h)
Next == DoSetAnchor \/ DoReset \/ DoToEnuGeo
Spec == Init /\ [][Next]_mcvars
Pts == {<<x, y, z>> : x \in Probe, y \in Probe, z \in Probe}
Laws == RigidFrame /\ \A p \in Pts : InverseOn(p) /\ IsometryOn(p)
=============================================================================
