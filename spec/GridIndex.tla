------------------------------ MODULE GridIndex ------------------------------
(***************************************************************************)
(* GridIndexMapping<Scalar,2/3> (src/containers/grid/GridIndexMapping.cpp) *)
(* - property C13.  All lengths are integers in a sub-cell unit u: the     *)
(* resolution is R units (R even), so cell centres sit at multiples of R   *)
(* and cell borders at odd multiples of R/2:                               *)
(*   first  = floor(lo / R)            last = ceil(hi / R)                 *)
(*   ncells = last - first + 1         origin = R * first - R / 2          *)
(*   Index(p) = (p - origin) div R     Centre(k) = R * (first + k)         *)
(* With decimal units the binary quotient of an exact multiple may land on *)
(* either side: the *ND operators allow both outcomes, and TLC checks that *)
(* C13 survives every such choice.                                         *)
(***************************************************************************)
EXTENDS Integers, Sequences, FiniteSets

VARIABLES dim, R, lo, hi,     \* configuration (per-axis tuples lo, hi; lo[a] <= hi[a])
          nd,                 \* TRUE: decimal unit, rounding of exact quotients is free
          first, ncells       \* what the constructor computed
givars == <<dim, R, lo, hi, nd, first, ncells>>
Axes == 1..dim

FloorDiv(x, m) == x \div m                 \* TLA+ \div floors (m > 0)
CeilDiv(x, m)  == -((-x) \div m)
FloorND(x) == IF nd /\ x % R = 0 THEN {x \div R, x \div R - 1} ELSE {FloorDiv(x, R)}
CeilND(x)  == IF nd /\ x % R = 0 THEN {x \div R, x \div R + 1} ELSE {CeilDiv(x, R)}

Origin(a)    == R * first[a] - R \div 2
Centre1(a, k) == R * (first[a] + k)
Index1(a, p)  == (p - Origin(a)) \div R
\* a point exactly on a cell border may be attributed to either adjacent cell when nd
Index1ND(a, p) == IF nd /\ (p - Origin(a)) % R = 0 THEN {Index1(a, p), Index1(a, p) - 1} ELSE {Index1(a, p)}

Constructed(f, n) ==        \* (first, ncells) is a possible outcome of the constructor
  \A a \in Axes : f[a] \in FloorND(lo[a]) /\ (f[a] + n[a] - 1) \in CeilND(hi[a])

GiInitWith(d, r, l, h, n, f, nc) == dim = d /\ R = r /\ lo = l /\ hi = h /\ nd = n /\ first = f /\ ncells = nc
GiSetUp(d, r, l, h, n, f, nc) == dim' = d /\ R' = r /\ lo' = l /\ hi' = h /\ nd' = n /\ first' = f /\ ncells' = nc

-----------------------------------------------------------------------------
(* C13, per axis, for every point of the closed extent and every admissible index of it *)
Abs(x) == IF x < 0 THEN -x ELSE x
InRangeAndClose ==
  \A a \in Axes : \A p \in lo[a]..hi[a] : \A k \in Index1ND(a, p) :
     /\ k >= 0 /\ k < ncells[a]                       \* in-bounds index
     /\ 2 * Abs(p - Centre1(a, k)) <= R               \* within half a resolution of the centre
CentresMapBack == \A a \in Axes : \A k \in 0..(ncells[a] - 1) : Index1(a, Centre1(a, k)) = k
Spacing        == \A a \in Axes : \A k \in 0..(ncells[a] - 2) : Centre1(a, k + 1) - Centre1(a, k) = R
CoversBounds   == \A a \in Axes : /\ 2 * Centre1(a, 0) - R <= 2 * lo[a]
                                  /\ 2 * hi[a] <= 2 * Centre1(a, ncells[a] - 1) + R
C13 == InRangeAndClose /\ CentresMapBack /\ Spacing /\ CoversBounds
(* Generic (non-lattice) grids: the relations of C13 measured on the real mapping as residuals, in units of one rounding of a       *)
(* coordinate of the grid's size (eps * max(1, largest |bound|)):  res = << excess of |p - centre| over half a resolution,          *)
(* deviation of the centre spacing from the resolution, lower bound not covered by the first cell, upper bound not covered by the  *)
(* last cell >>.  Indexes in range, centres mapping back to their own cell and the two centre accessors agreeing are exact facts.  *)
GenericBound == 8
GenericOK(t) == /\ t.inRange /\ t.back /\ t.tabSame
                /\ \A i \in 1..4 : t.res[i] <= GenericBound
=========================================================================
