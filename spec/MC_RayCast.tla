------------------------------ MODULE MC_RayCast ------------------------------
(* Exhaustive check of C13 and C14 on small grids: every extent lo <= hi in a range, every     *)
(* lattice origin/end pair (centres, borders, corners, coincident, axis-aligned, diagonal),    *)
(* every resolution of ties, and histories of several casts reusing the traversal variables.   *)
EXTENDS RayCast, TLC
CONSTANTS Dim, Rs, LoRange, HiRange, ND, MaxCasts
VARIABLES ncast
\* ranges with negative members cannot be written in a TLC configuration file
LoSet == -12..12
HiSet == -12..12
LoSetT == -24..24
HiSetT == -24..24
mcvars == <<givars, rcvars, ncast>>

Tuples(S) == IF Dim = 2 THEN {<<x, y>> : x \in S, y \in S} ELSE {<<x, y, z>> : x \in S, y \in S, z \in S}
\* the same bounds on every axis keeps the configuration space small; per-axis plumbing is exercised by the points
Init == /\ \E r \in Rs, l \in LoRange, h \in HiRange :
             /\ l <= h
             /\ \E f \in (IF ND /\ l % r = 0 THEN {l \div r, l \div r - 1} ELSE {l \div r}),
                  c \in (IF ND /\ h % r = 0 THEN {h \div r, h \div r + 1} ELSE {-((-h) \div r)}) :
                  GiInitWith(Dim, r, [a \in 1..Dim |-> l], [a \in 1..Dim |-> h], ND,
                             [a \in 1..Dim |-> f], [a \in 1..Dim |-> c - f + 1])
        /\ RcInit0 /\ ncast = 0

Points == Tuples(lo[1]..hi[1])
Idle == IF ~active THEN TRUE ELSE k = L1        \* no cast in progress
DoSetOrigin == /\ Idle /\ ncast < MaxCasts
               /\ \E p \in Points : \E idx \in IndexesOf(p) : SetOrigin(p, idx)
               /\ UNCHANGED <<givars, ncast>>
DoSetEnd == /\ o # <<>> /\ Idle /\ ncast < MaxCasts
            /\ \E p \in Points : \E idx \in IndexesOf(p) : SetEnd(p, idx)
            /\ ncast' = ncast + 1 /\ UNCHANGED givars
DoNext == /\ (IF ~active THEN FALSE ELSE k < L1)
          /\ \E a \in Axes : Next(a)
          /\ UNCHANGED <<givars, ncast>>
Next0 == DoSetOrigin \/ DoSetEnd \/ DoNext
Spec == Init /\ [][Next0]_mcvars
ConstructorOK == Constructed(first, ncells)
=============================================================================
