SPECIFICATION TraceSpec
INVARIANTS IntegralBounded
POSTCONDITION TraceAccepted
CHECK_DEADLOCK FALSE
