SPECIFICATION TraceSpec
INVARIANTS Refines SizeIsMin
POSTCONDITION TraceAccepted
CHECK_DEADLOCK FALSE
