------------------------ MODULE Trace_NearestNeighbour ------------------------
(* Validation of kd-tree queries recorded by harness/drive_kdtree.cpp (C08).  The point set stays in the     *)
(* trace constant (the state only remembers the line of the last Reset), and the big quantifiers are         *)
(* evaluated as state-level expressions ((...) = TRUE) so that TLC does not recurse per element.             *)
EXTENDS NearestNeighbour, TLC, Json, IOUtils
Tr == ndJsonDeserialize(IOEnv.TRACE)
VARIABLES l, base
TraceInit == l = 1 /\ base = 1
IsEvent(ev) == l <= Len(Tr) /\ Tr[l].e = ev /\ l' = l + 1
TReset == IsEvent("Reset") /\ base' = l
TNn    == IsEvent("nn") /\ UNCHANGED base /\ (ValidNN(Tr[base].pts, Tr[l].q, Tr[l].i, Tr[l].d2) = TRUE) /\ Tr[l].exact
TKnn   == IsEvent("knn") /\ UNCHANGED base /\ (ValidKNN(Tr[base].pts, Tr[l].q, Tr[l].k, Tr[l].idx, Tr[l].d2) = TRUE) /\ Tr[l].exact
TraceNext == TReset \/ TNn \/ TKnn
TraceSpec == TraceInit /\ [][TraceNext]_<<l, base>>
TraceAccepted == TLCGet("stats").diameter - 1 = Len(Tr)
=============================================================================
