----------------------------- MODULE RateMonitor -----------------------------
(***************************************************************************)
(* RateMonitoring (src/monitoring/RateMonitoring.cpp) - first half of C17. *)
(* Time is in integer ticks, T ticks per second.  The rate is the rational *)
(* W*T/span, kept as its denominator `span` (span = 0 encodes rate 0).     *)
(* As in the code, the very first "period" is the distance of the first    *)
(* stamp to time 0; it is the entry popped when the queue first overflows. *)
(***************************************************************************)
EXTENDS Integers, Sequences

VARIABLES W,        \* window size = clamp(floor(2 * expected rate), 4, 64)
          T,        \* ticks per second
          periods,  \* queue of the last <= W periods (oldest first)
          psum,     \* running sum of the queue
          span,     \* 0, or the time spanned by the last W periods: rate = W*T/span
          nst       \* number of stamps seen
rmvars == <<W, T, periods, psum, span, nst>>

Clamp(x, lo, hi) == IF x < lo THEN lo ELSE IF x > hi THEN hi ELSE x
WindowOf(rate8) == Clamp(rate8 \div 4, 4, 64)          \* expected rate given in 1/8 Hz: floor(2*rate) = rate8 div 4

RECURSIVE SumSeq(_)
SumSeq(s) == IF s = <<>> THEN 0 ELSE Head(s) + SumSeq(Tail(s))

RmInitWith(w, t) == W = w /\ T = t /\ periods = <<>> /\ psum = 0 /\ span = 0 /\ nst = 0
RmSetUp(w, t)    == W' = w /\ T' = t /\ periods' = <<>> /\ psum' = 0 /\ span' = 0 /\ nst' = 0

Stamp(dt) ==
  LET p == Append(periods, dt) IN
  /\ nst' = nst + 1
  /\ IF Len(p) = W + 1
       THEN periods' = Tail(p) /\ psum' = psum + dt - Head(p) /\ span' = psum + dt - Head(p)
       ELSE periods' = p /\ psum' = psum + dt /\ span' = span
  /\ UNCHANGED <<W, T>>

TimesOut(gap) == nst > 0 /\ 2 * gap > T              \* more than 0.5 s after the last stamp
Heartbeat(gap) ==
  /\ span' = IF TimesOut(gap) THEN 0 ELSE span
  /\ UNCHANGED <<W, T, periods, psum, nst>>

-----------------------------------------------------------------------------
RateIsWindowMean == span # 0 => (Len(periods) = W /\ span = SumSeq(periods) /\ span > 0)
ZeroUntilFull    == nst < W + 1 => span = 0
QueueBounded     == Len(periods) = (IF nst < W THEN nst ELSE W) /\ psum = SumSeq(periods)
=============================================================================
