------------------------------ MODULE Concurrent ------------------------------
(***************************************************************************)
(* Locking design of the thread-safe objects of the library (C19):         *)
(* SharedVariable, SharedOptionalVariable, OnlineAverage/Variance,         *)
(* Checkup*, RateMonitoring, CheckupRate.                                  *)
(*                                                                         *)
(* One shared object whose state is split in fields that the code reads    *)
(* and writes one at a time (the two halves of a shared value; status,     *)
(* message and value of a report; rate and report of a rate check-up).     *)
(* Every write stamps the field with the id of the writing call, so a copy *)
(* whose fields carry different ids is a torn / inconsistent read.         *)
(* Methods are sequences of steps at the grain of the code; which steps    *)
(* take the mutex is the parameter Shape(method):                          *)
(*   "guarded"  lock; access all fields; unlock          (lock_guard)      *)
(*   "bare"     access all fields without the mutex      (missing guard)   *)
(*   "byref"    lock; unlock; then the CALLER copies the fields            *)
(*              (getter returning a reference to guarded data)             *)
(*   "split"    lock; first field; unlock; lock; other fields; unlock      *)
(*              (two critical sections where one is needed)                *)
(***************************************************************************)
EXTENDS Integers, Sequences, FiniteSets, TLC

CONSTANTS Threads,          \* e.g. {"w", "r1", "r2"}
          Program,          \* thread -> sequence of method names
          Fields,           \* e.g. {1, 2, 3}
          Writes,           \* set of method names that write (others read)
          Shape             \* method name -> "guarded" | "bare" | "byref" | "split"

VARIABLES pc,      \* thread -> <<index of current call, step within it>>
          holder,  \* thread holding the mutex, or "none"
          obj,     \* field -> id of the call that last wrote it (0 = initial)
          copy,    \* thread -> field -> id read by the current/last reading call
          done,    \* set of completed reads: <<thread, call index, copy>>
          nextId,  \* ids handed to writing calls, in order of their first step
          myId     \* thread -> id of its current writing call
vars == <<pc, holder, obj, copy, done, nextId, myId>>

FieldSeq == LET RECURSIVE S(_)
                S(F) == IF F = {} THEN <<>> ELSE LET m == CHOOSE x \in F : \A y \in F : x <= y IN <<m>> \o S(F \ {m})
            IN S(Fields)
NF == Cardinality(Fields)

(* the step list of a method: L lock, U unlock, <<"A", f>> access field f *)
L == <<"L", 0>>
U == <<"U", 0>>
StepsOf(m) ==
  LET acc == [k \in 1..NF |-> <<"A", FieldSeq[k]>>] IN
  CASE Shape[m] = "guarded" -> <<L>> \o acc \o <<U>>
    [] Shape[m] = "bare"    -> acc
    [] Shape[m] = "byref"   -> <<L, U>> \o acc
    [] Shape[m] = "split"   -> <<L, acc[1], U, L>> \o SubSeq(acc, 2, NF) \o <<U>>

Calls(t)   == Program[t]
Active(t)  == pc[t][1] <= Len(Calls(t))
Method(t)  == Calls(t)[pc[t][1]]
CurStep(t) == StepsOf(Method(t))[pc[t][2]]
IsAccess(s) == s[1] = "A"

Init == /\ pc = [t \in Threads |-> <<1, 1>>] /\ holder = "none"
        /\ obj = [f \in Fields |-> 0] /\ copy = [t \in Threads |-> [f \in Fields |-> 0]]
        /\ done = {} /\ nextId = 1 /\ myId = [t \in Threads |-> 0]

Advance(t) == IF pc[t][2] = Len(StepsOf(Method(t)))
                THEN pc' = [pc EXCEPT ![t] = <<pc[t][1] + 1, 1>>]
                ELSE pc' = [pc EXCEPT ![t] = <<pc[t][1], pc[t][2] + 1>>]
LastStep(t) == pc[t][2] = Len(StepsOf(Method(t)))

Step(t) ==
  /\ Active(t)
  /\ LET s == CurStep(t)
         m == Method(t)
         first == pc[t][2] = 1
         id == IF first /\ m \in Writes THEN nextId ELSE myId[t]
     IN
     /\ IF first /\ m \in Writes THEN nextId' = nextId + 1 /\ myId' = [myId EXCEPT ![t] = nextId]
                                 ELSE UNCHANGED <<nextId, myId>>
     /\ CASE s[1] = "L" -> holder = "none" /\ holder' = t /\ UNCHANGED <<obj, copy, done>>
          [] s[1] = "U" -> holder' = "none" /\ UNCHANGED <<obj, copy>>
                        /\ done' = IF LastStep(t) /\ m \notin Writes THEN done \cup {<<t, pc[t][1], copy[t]>>} ELSE done
          [] OTHER   -> /\ UNCHANGED holder
                        /\ IF m \in Writes
                             THEN obj' = [obj EXCEPT ![s[2]] = id] /\ UNCHANGED <<copy, done>>
                             ELSE /\ copy' = [copy EXCEPT ![t][s[2]] = obj[s[2]]]
                                  /\ UNCHANGED obj
                                  /\ done' = IF LastStep(t)
                                               THEN done \cup {<<t, pc[t][1], [copy[t] EXCEPT ![s[2]] = obj[s[2]]]>>}
                                               ELSE done
     /\ Advance(t)

Next == \E t \in Threads : Step(t)
Spec == Init /\ [][Next]_vars

-----------------------------------------------------------------------------
(* C19, first half: no data race (lockset discipline).  Two threads are        *)
(* simultaneously about to access the same field, one of them writing, and     *)
(* they hold no mutex in common.                                               *)
LocksHeld(t) == IF holder = t THEN {"mutex"} ELSE {}
RaceFree ==
  \A t, u \in Threads :
    (t # u /\ Active(t) /\ Active(u) /\ IsAccess(CurStep(t)) /\ IsAccess(CurStep(u))
     /\ CurStep(t)[2] = CurStep(u)[2] /\ (Method(t) \in Writes \/ Method(u) \in Writes))
    => LocksHeld(t) \cap LocksHeld(u) # {}

(* C19, second half: every completed copy is internally consistent - all of    *)
(* its fields were written by the same call (never half-written / mixed).      *)
CopyCoherent == \A d \in done : \A f, g \in Fields : d[3][f] = d[3][g]

(* a writing call's fields are all in place when it returns: no other writer's *)
(* id is interleaved in the object at quiescence (atomicity of "split" shapes) *)
QuiescentCoherent == (\A t \in Threads : ~Active(t) \/ pc[t][2] = 1) => \A f, g \in Fields : obj[f] = obj[g]
=============================================================================
