SPECIFICATION TraceSpec
INVARIANTS Refines VarNonNegative
POSTCONDITION TraceAccepted
CHECK_DEADLOCK FALSE
