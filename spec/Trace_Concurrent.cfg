SPECIFICATION TraceSpec
INVARIANTS OrderConsistent
POSTCONDITION TraceAccepted
CHECK_DEADLOCK FALSE
