------------------------------- MODULE RayCast -------------------------------
(***************************************************************************)
(* RayCasting<Scalar,2/3> (src/containers/grid/RayTracing.cpp) on top of   *)
(* GridIndex - property C14.  Amanatides-Woo traversal over exact          *)
(* rationals: the direction d = e - o is NOT normalised (normalising only  *)
(* rescales the parameter), the parameter at which axis a is next crossed  *)
(* is tNum[a] / |d[a]| (tNum in units, twice-scaled to stay integral),     *)
(* compared by cross-multiplication.  On equal parameters EITHER axis may  *)
(* advance: in the code that is decided by the rounding of d / |d|, and    *)
(* C14 allows both.                                                        *)
(***************************************************************************)
EXTENDS GridIndex

VARIABLES o, e,          \* origin / end point (tuples, in units)
          oIdx, eIdx,    \* their cells as computed at setOrigin / setEnd
          cell, tNum, k, \* traversal state: current cell, 2 * distance to next border per axis, steps done
          active         \* TRUE from setEndPoint until the origin is changed: the traversal state belongs to (o, e)
rcvars == <<o, e, oIdx, eIdx, cell, tNum, k, active>>

Sign(x) == IF x > 0 THEN 1 ELSE IF x < 0 THEN -1 ELSE 0
D(a)    == e[a] - o[a]
Step(a) == Sign(D(a))
L1      == LET RECURSIVE S(_)
               S(a) == IF a = 0 THEN 0 ELSE Abs(eIdx[a] - oIdx[a]) + S(a - 1)
           IN S(dim)
IndexesOf(p) == IF dim = 2 THEN {<<x, y>> : x \in Index1ND(1, p[1]), y \in Index1ND(2, p[2])}
                ELSE {<<x, y, z>> : x \in Index1ND(1, p[1]), y \in Index1ND(2, p[2]), z \in Index1ND(3, p[3])}

RcInit0 == o = <<>> /\ e = <<>> /\ oIdx = <<>> /\ eIdx = <<>> /\ cell = <<>> /\ tNum = <<>> /\ k = 0 /\ active = FALSE

(* setOriginPoint: does not touch the traversal state *)
SetOrigin(p, idx) ==
  /\ \A a \in Axes : idx[a] \in Index1ND(a, p[a])
  /\ o' = p /\ oIdx' = idx /\ active' = FALSE
  /\ UNCHANGED <<e, eIdx, cell, tNum, k>>

(* setEndPoint: (re)initialises the traversal from the current origin *)
SetEnd(p, idx) ==
  /\ \A a \in Axes : idx[a] \in Index1ND(a, p[a])
  /\ \A a \in Axes : p[a] = o[a] => idx[a] = oIdx[a]     \* the index is a function of the coordinate, also on a border
  /\ e' = p /\ eIdx' = idx
  /\ cell' = oIdx /\ k' = 0 /\ active' = TRUE
  /\ tNum' = [a \in Axes |->
               LET s == Sign(p[a] - o[a]) IN
               IF s = 0 THEN 0
               ELSE Abs(2 * Centre1(a, oIdx[a]) + s * R - 2 * o[a])]      \* 2 * |border - o|
  /\ UNCHANGED <<o, oIdx>>

Minimal(a) == /\ Step(a) # 0
              /\ \A b \in Axes : Step(b) # 0 => tNum[a] * Abs(D(b)) <= tNum[b] * Abs(D(a))

Next(a) ==
  /\ Minimal(a)
  /\ cell' = [cell EXCEPT ![a] = @ + Step(a)]
  /\ tNum' = [tNum EXCEPT ![a] = @ + 2 * R]
  /\ k' = k + 1
  /\ UNCHANGED <<o, e, oIdx, eIdx, active>>

-----------------------------------------------------------------------------
(* C14 as state predicates over the cells visited by a cast that set its end point *)
InGrid(c) == \A a \in Axes : c[a] >= 0 /\ c[a] < ncells[a]

(* exact slab test: does the closed box of cell c meet the segment o + t (e - o), t in [0,1]?  *)
(* per axis the admissible t are [lnum/den, unum/den] (den > 0); fractions compared exactly.   *)
BoxLo(a, c) == 2 * Centre1(a, c[a]) - R          \* doubled coordinates
BoxHi(a, c) == 2 * Centre1(a, c[a]) + R
FracLe(x, y) == x[1] * y[2] <= y[1] * x[2]        \* x = <<num, den>>, den > 0
TLow(a, c)  == IF D(a) > 0 THEN <<BoxLo(a, c) - 2 * o[a], 2 * D(a)>> ELSE <<2 * o[a] - BoxHi(a, c), -2 * D(a)>>
THigh(a, c) == IF D(a) > 0 THEN <<BoxHi(a, c) - 2 * o[a], 2 * D(a)>> ELSE <<2 * o[a] - BoxLo(a, c), -2 * D(a)>>
Touches(c) ==
  /\ \A a \in Axes : D(a) = 0 => (BoxLo(a, c) <= 2 * o[a] /\ 2 * o[a] <= BoxHi(a, c))
  /\ \A a \in Axes : D(a) # 0 => (FracLe(TLow(a, c), <<1, 1>>) /\ FracLe(<<0, 1>>, THigh(a, c)))
  /\ \A a, b \in Axes : (D(a) # 0 /\ D(b) # 0) => FracLe(TLow(a, c), THigh(b, c))
ContainsEnd(c) == \A a \in Axes : BoxLo(a, c) <= 2 * e[a] /\ 2 * e[a] <= BoxHi(a, c)
OnBorder(p)    == \E a \in Axes : (p[a] - Origin(a)) % R = 0

Casting == IF ~active THEN FALSE ELSE k <= L1                    \* a cast visits L1 + 1 cells: k = 0..L1
CellsInGrid     == Casting => InGrid(cell)
CellsOnSegment  == Casting => Touches(cell)
StartsAtOrigin  == (Casting /\ k = 0) => cell = oIdx
EndsAtEnd       == (Casting /\ k = L1) => (ContainsEnd(cell) /\ (~OnBorder(e) => cell = eIdx))
CanAlwaysStep   == (Casting /\ k < L1) => \E a \in Axes : Minimal(a)
C14 == CellsInGrid /\ CellsOnSegment /\ StartsAtOrigin /\ EndsAtEnd /\ CanAlwaysStep
(* Generic (non-lattice) rays on large grids with decimal resolutions (recorded by the harness against the nominal grid in double): *)
(* the cast starts in the origin's cell, ends in the end point's cell, steps through face-adjacent cells, takes no detour (its length *)
(* is the Manhattan distance of the two cells plus one) and every cell is met by the segment.                                       *)
GenericRayOK(t) == t.startOK /\ t.endOK /\ t.adjacent /\ t.meets /\ t.minimal
=============================================================================
