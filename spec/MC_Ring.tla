------------------------------ MODULE MC_Ring ------------------------------
EXTENDS Ring, TLC, Json
CONSTANTS Cs, Extra
VARIABLES hist, nxt        \* nxt: next value to append (all appended values distinct)
mcvars == <<rgvars, hist, nxt>>
View == <<rgvars, nxt>>

Init == (\E c \in Cs : InitWith(c)) /\ hist = <<>> /\ nxt = 1
DoAppend == nxt <= 3 * C + Extra /\ Append1(nxt) /\ nxt' = nxt + 1 /\ hist' = Append(hist, [e |-> "append", v |-> nxt])
DoClear  == Len(hist) > 0 /\ hist[Len(hist)].e # "clear" /\ Clear /\ hist' = Append(hist, [e |-> "clear"]) /\ nxt' = nxt
Next == DoAppend \/ DoClear
Spec == Init /\ [][Next]_mcvars
MostRecentFirst == \A k \in 1..Len(items) : items[k] = nxt - k     \* appended values are 1, 2, 3, ...
EmitState == PrintT(ToJson([C |-> C, path |-> hist]))
=============================================================================
