----------------------------- MODULE Trace_PoseCov -----------------------------
(* Validation of pose / twist / ellipse conversions recorded by harness/drive_pose.cpp (C11, C12). *)
(* KNOWN = "1" additionally accepts the as-coded pose Jacobian (named deviation, known finding).    *)
EXTENDS PoseCov, TLC, Json, IOUtils
Tr == ndJsonDeserialize(IOEnv.TRACE)
Known == IOEnv.KNOWN = "1"
SkipCov == IOEnv.SKIPCOV = "1"          \* C11 run: the propagated covariance is the subject of C12, not of C11
VARIABLES l
TraceInit == l = 1
IsEvent(ev) == l <= Len(Tr) /\ Tr[l].e = ev /\ l' = l + 1
TReset == IsEvent("Reset")
\* 3D -> planar reductions keep exactly the planar components of mean and covariance
TReduce == /\ IsEvent("reduce")
           /\ LET t == Tr[l] IN t.ex /\ t.mean3 = ReduceMean(t.mean6) /\ t.M3 = Reduce(t.M6)
TPosition == /\ IsEvent("position")
             /\ LET t == Tr[l] IN t.ex /\ t.p3 = <<t.mean6[1], t.mean6[2], t.mean6[3]>> /\ t.M3 = Block3(t.M6)
\* planar covariance embedded in 6x6 and reduced again; symmetric PSD inputs stay symmetric PSD
TEmbed == /\ IsEvent("embed")
          /\ LET t == Tr[l] IN t.ex /\ t.M6 = Embed(t.M3) /\ t.back = t.M3 /\ (Psd3(t.M3) => Psd3(t.back))
\* SE(3) action on position and attitude, covariance J C J^T
TSe3 == /\ IsEvent("se3")
        /\ LET t == Tr[l] IN
           /\ t.ex /\ t.p2 = ActPos(t.q, t.T, t.p) /\ t.att2 = ActAtt(t.q, t.rq, t.yq)
           /\ \/ SkipCov
              \/ t.C2 = Propagate(Jtrue(t.q), t.Cm)
              \/ Known /\ t.C2 = Propagate(JAsCoded(t.q, t.rq, t.yq), t.Cm)
\* two successive transforms act as their composition
TCompose == /\ IsEvent("compose")
            /\ LET t == Tr[l] IN t.ex /\ t.p12 = ActPos(t.q2, t.T2, ActPos(t.q1, t.T1, t.p)) /\ t.pc = t.p12
                                 /\ t.att12 = ActAtt(t.q1 + t.q2, t.rq, t.yq) /\ t.attc = t.att12
\* ellipse of Q diag(a^2, b^2) Q^T at sigma scale: radii sigma a >= sigma b >= 0, axis along Q, reconstruction = covariance
TEllipse == /\ IsEvent("ellipse")
            /\ LET t == Tr[l] IN
               /\ t.ex /\ t.major = t.a /\ t.minor = t.b /\ t.a >= t.b /\ t.b >= 0
               /\ t.a > t.b => (t.orient = <<C(t.ang), S(t.ang)>> \/ t.orient = <<-C(t.ang), -S(t.ang)>>)
               /\ t.recon = EllipseCov(t.a, t.b, t.ang)
TGeneric == IsEvent("generic") /\ Tr[l].ordered /\ GenericOK(Tr[l].res)
TraceNext == TGeneric \/ TReset \/ TReduce \/ TPosition \/ TEmbed \/ TSe3 \/ TCompose \/ TEllipse
TraceSpec == TraceInit /\ [][TraceNext]_l
TraceAccepted == TLCGet("stats").diameter - 1 = Len(Tr)
=============================================================================
