--------------------------- MODULE Trace_LsqBuffers ---------------------------
(* Trace validation of LeastSquares<float/double> histories recorded by harness/drive_lsq.cpp (C07, C12). *)
EXTENDS LsqBuffers, TLC, Json, IOUtils
Tr == ndJsonDeserialize(IOEnv.TRACE)
VARIABLES l
tvars == <<lsvars, l>>
TraceInit == LsInitWith(1) /\ l = 1
IsEvent(ev) == l <= Len(Tr) /\ Tr[l].e = ev /\ l' = l + 1

TReset   == IsEvent("Reset") /\ LsSetUp(Tr[l].est)
TSetData == IsEvent("setDataSize") /\ SetDataSize(Tr[l].n)       \* the boolean returned by setDataSize is not part of C07
TFill    == IsEvent("fill") /\ Fill(Tr[l].i, Tr[l].j, Tr[l].y)
TSetW    == IsEvent("setW") /\ SetW(Tr[l].i, Tr[l].w) /\ Tr[l].wread = Wt'[Tr[l].i]
TWeights == IsEvent("weights") /\ UNCHANGED lsvars            \* informational: weights read back after a growth
TPrecond == IsEvent("precond") /\ SetPrecond(Tr[l].a, Tr[l].b)
TEstimate == /\ IsEvent("estimate") /\ Tr[l].exact
             /\ IF Tr[l].how = "weighted" THEN WeightedEstimate(Tr[l].x)
                                          ELSE Estimate(Tr[l].x)
\* covariance = variance * A (J^T J)^-1 A^T; logged as cdet = round(cov * det(J^T J)) with its determinant, est <= 2:
\* checked as cov * det = var * A adj(J^T J) A (diagonal A)
JtJ(i, k) == SumF([r \in Live |-> J[r][i] * J[r][k]], dsz)
TCov == /\ IsEvent("cov") /\ UNCHANGED lsvars /\ Tr[l].exact
        /\ IF est = 1 THEN Tr[l].det = JtJ(1, 1) /\ Tr[l].cdet = <<<<Tr[l].var * A[1] * A[1]>>>>
           ELSE /\ Tr[l].det = JtJ(1, 1) * JtJ(2, 2) - JtJ(1, 2) * JtJ(1, 2)
                /\ Tr[l].cdet = <<<<Tr[l].var * A[1] * A[1] * JtJ(2, 2), -Tr[l].var * A[1] * A[2] * JtJ(1, 2)>>,
                                  <<-Tr[l].var * A[1] * A[2] * JtJ(1, 2), Tr[l].var * A[2] * A[2] * JtJ(1, 1)>>>>
\* solver covariance on a generic real-valued problem: relative residual against variance * A (J^T J)^-1 A^T (units of 1e-12)
TCovGen == IsEvent("covgen") /\ UNCHANGED lsvars /\ Tr[l].res <= (IF Tr[l].float = 1 THEN 2000000000 ELSE 100000)
TraceNext == TCovGen \/ TReset \/ TSetData \/ TFill \/ TSetW \/ TWeights \/ TPrecond \/ TEstimate \/ TCov
TraceSpec == TraceInit /\ [][TraceNext]_tvars
TraceAccepted == TLCGet("stats").diameter - 1 = Len(Tr)
=============================================================================
