------------------------------- MODULE Checkup -------------------------------
(***************************************************************************)
(* Checkup<double>, CheckupEqualTo / GreaterThan / LowerThan and           *)
(* CheckupReliability (include/.../diagnostic, src/diagnostics) - the      *)
(* threshold half of property C18.                                         *)
(*                                                                         *)
(* A value is a pair <<k, d>>: the integer k shifted by d in {-1,0,1} ulps *)
(* ("exactly on a threshold and one ulp on either side"); thresholds are   *)
(* integers, order is lexicographic.                                       *)
(* The report is the triple the property talks about: status, verdict      *)
(* (which sentence the message ends with) and printed value (or Empty).    *)
(***************************************************************************)
EXTENDS StatusLattice

VARIABLES kind,      \* "eq" | "gt" | "lt" | "rel"
          ta, tb,    \* eq/gt/lt: target and epsilon (>= 0); rel: low and high thresholds
          report,    \* [status, verdict, value]
          returned   \* status returned by the last evaluate (or None)
ckvars == <<kind, ta, tb, report, returned>>

Empty == [has |-> FALSE, k |-> 0]
Printed(k) == [has |-> TRUE, k |-> k]
None == -1                                 \* "no status returned yet"
Lt(u, v) == u[1] < v[1] \/ (u[1] = v[1] /\ u[2] < v[2])
Le(u, v) == ~Lt(v, u)
Exact(k) == <<k, 0>>

(* verdict builders shared with RateCheckup: the arguments are the two comparisons of the code *)
EqVerdict(belowLow, aboveHigh) == IF belowLow THEN <<ERROR, "low">>
                                  ELSE IF aboveHigh THEN <<ERROR, "high">> ELSE <<OK, "ok">>
GtVerdict(aboveMin) == IF aboveMin THEN <<OK, "ok">> ELSE <<ERROR, "low">>
LtVerdict(belowMax) == IF belowMax THEN <<OK, "ok">> ELSE <<ERROR, "high">>

Verdict(v) ==
  CASE kind = "eq"  -> EqVerdict(Lt(v, Exact(ta - tb)), Lt(Exact(ta + tb), v))
    [] kind = "gt"  -> GtVerdict(Lt(Exact(ta - tb), v))
    [] kind = "lt"  -> LtVerdict(Lt(v, Exact(ta + tb)))
    [] kind = "rel" -> IF Lt(v, Exact(ta)) THEN <<ERROR, "low">>
                       ELSE IF Lt(v, Exact(tb)) THEN <<WARN, "uncertain">> ELSE <<OK, "reliable">>

\* ini: "stale" (default diagnostic), "nodata" (rate check-ups), or "custom0".."custom3": an initial diagnostic with that
\* status and some other message handed to the constructor
InitialReport(ini) == CASE ini = "nodata" -> [status |-> ERROR, verdict |-> "nodata", value |-> Empty]
                         [] ini = "custom0" -> [status |-> OK, verdict |-> "custom", value |-> Empty]
                         [] ini = "custom1" -> [status |-> WARN, verdict |-> "custom", value |-> Empty]
                         [] ini = "custom2" -> [status |-> ERROR, verdict |-> "custom", value |-> Empty]
                         [] ini = "custom3" -> [status |-> STALE, verdict |-> "custom", value |-> Empty]
                         [] OTHER -> [status |-> STALE, verdict |-> "none", value |-> Empty]
InitWith(kd, a, b, ini) == /\ kind = kd /\ ta = a /\ tb = b
                           /\ report = InitialReport(ini) /\ returned = None
SetUp(kd, a, b, ini)    == /\ kind' = kd /\ ta' = a /\ tb' = b
                           /\ report' = InitialReport(ini) /\ returned' = None

Evaluate(v) ==
  /\ report' = [status |-> Verdict(v)[1], verdict |-> Verdict(v)[2], value |-> Printed(v[1])]
  /\ returned' = Verdict(v)[1]
  /\ UNCHANGED <<kind, ta, tb>>

Timeout ==
  /\ kind # "rel"                        \* the reliability check-up has no timeout
  /\ report' = [status |-> STALE, verdict |-> "timeout", value |-> Empty]
  /\ UNCHANGED <<kind, ta, tb, returned>>

-----------------------------------------------------------------------------
(* The sentences of C18 about single check-ups, as state predicates.         *)
(* They are evaluated on the state right after an evaluation (last = value). *)
Meaning(v, st) ==
  CASE kind = "eq"  -> (st = OK) <=> (Le(Exact(ta - tb), v) /\ Le(v, Exact(ta + tb)))   \* |v - target| <= eps
    [] kind = "gt"  -> (st = OK) <=> Lt(Exact(ta - tb), v)                               \* v > min - eps
    [] kind = "lt"  -> (st = OK) <=> Lt(v, Exact(ta + tb))                               \* v < max + eps
    [] kind = "rel" -> /\ (st = ERROR) <=> Lt(v, Exact(ta))                            \* ERROR below the low threshold,
                       /\ (st = WARN)  <=> (~Lt(v, Exact(ta)) /\ Lt(v, Exact(tb)))       \* (otherwise) WARN below the high one,
                       /\ (st = OK)    <=> (~Lt(v, Exact(ta)) /\ ~Lt(v, Exact(tb)))      \* and OK otherwise - whatever the order of the thresholds

(* status, verdict and value always belong together *)
Coherent ==
  report.verdict # "custom" =>                       \* (an initial diagnostic supplied by the caller is whatever the caller said)
  /\ report.verdict = "timeout" <=> (report.status = STALE /\ report.verdict # "none")
  /\ report.verdict \in {"timeout", "none", "nodata"} <=> report.value = Empty
  /\ report.verdict \in {"ok", "reliable"} <=> report.status = OK
  /\ report.verdict = "uncertain" <=> report.status = WARN
  /\ report.verdict \in {"low", "high", "nodata"} <=> report.status = ERROR
=============================================================================
