-------------------------------- MODULE Normals --------------------------------
(***************************************************************************)
(* NormalAndCurvatureEstimation (src/pointset/algorithms) - property C09   *)
(* on exact lattices: integer clouds sampled from a lattice plane (3D) or  *)
(* line (2D) with rational unit normal nrm / den not through the origin    *)
(* (nrm . p = c, c # 0 for every point p).  There the estimated normal     *)
(* must be the surface normal, oriented towards the sensor origin          *)
(* (normal . p <= 0), the curvature 0; rotating the cloud by a signed      *)
(* permutation rotates every normal by the same permutation.               *)
(***************************************************************************)
EXTENDS Integers, Sequences, FiniteSets
RECURSIVE SumF(_, _)
SumF(f, n) == IF n = 0 THEN 0 ELSE f[n] + SumF(f, n - 1)
Dot(u, v) == SumF([k \in 1..Len(u) |-> u[k] * v[k]], Len(u))
MatVec(Q, p) == [i \in 1..Len(Q) |-> Dot(Q[i], p)]
Neg(v) == [k \in 1..Len(v) |-> -v[k]]
IsUnit(nrm, den) == Dot(nrm, nrm) = den * den
OnSurface(nrm, c, p) == Dot(nrm, p) = c
(* the sensor-facing unit normal of the surface nrm . p = c (times den) *)
Facing(nrm, c) == IF c > 0 THEN Neg(nrm) ELSE nrm
NormalOK(out, nrm, c) == out = Facing(nrm, c)
(* Generic clouds: the normal against the direction of least variance of the k nearest neighbours and the curvature against the   *)
(* share of that variance, both from an independent reference (exhaustive search, double-precision eigen-decomposition), where the *)
(* neighbour set and the smallest eigenvalue are clear-cut (relative gap >= 0.05).  res = << sine of the angle between the two      *)
(* directions, curvature difference >> in 1e-9 units; the two compute overloads must return the same normals.                       *)
LeastVarBound(isFloat) == IF isFloat THEN 2000000 ELSE 1000
LeastVarOK(t) == t.sameOverloads /\ \A i \in 1..2 : t.res[i] <= LeastVarBound(t.float = 1)
=============================================================================
