------------------------------- MODULE PoseCov -------------------------------
(***************************************************************************)
(* Pose / twist reductions, 3x3 <-> 6x6 covariance embedding, rigid        *)
(* transformation of a 3D pose and uncertainty ellipses - property C11 and *)
(* the pose-covariance clause of C12 (src/geometry/*.cpp, math/Matrix.hpp).*)
(* Exact-lattice model: integer means, integer symmetric covariances,      *)
(* transforms from the yaw quarter-turn subgroup with integer              *)
(* translations, attitudes with quarter-turn roll / yaw and zero pitch.    *)
(* Reductions are pure data movement: checked on label matrices (all       *)
(* entries distinct), which decides the index selection for every input.   *)
(***************************************************************************)
EXTENDS Rot

Planar == <<1, 2, 6>>                        \* x, y, yaw   (vx, vy, yaw rate)
Reduce(M) == [i \in 1..3 |-> [j \in 1..3 |-> M[Planar[i]][Planar[j]]]]
Embed(M3) == [i \in 1..6 |-> [j \in 1..6 |->
                IF i \in {1, 2, 6} /\ j \in {1, 2, 6}
                  THEN M3[IF i = 6 THEN 3 ELSE i][IF j = 6 THEN 3 ELSE j] ELSE 0]]
ReduceMean(v) == <<v[1], v[2], v[6]>>
Block3(M) == [i \in 1..3 |-> [j \in 1..3 |-> M[i][j]]]            \* position covariance of a pose

RECURSIVE SumN(_, _)
SumN(f, n) == IF n = 0 THEN 0 ELSE f[n] + SumN(f, n - 1)
MulN(X, Y, n) == [i \in 1..n |-> [j \in 1..n |-> SumN([k \in 1..n |-> X[i][k] * Y[k][j]], n)]]
TrN(X, n) == [i \in 1..n |-> [j \in 1..n |-> X[j][i]]]
Symmetric(M, n) == \A i, j \in 1..n : M[i][j] = M[j][i]
Minor2(M, i, j) == M[i][i] * M[j][j] - M[i][j] * M[j][i]
Psd3(M) == /\ Symmetric(M, 3) /\ \A i \in 1..3 : M[i][i] >= 0
           /\ \A i, j \in 1..3 : i < j => Minor2(M, i, j) >= 0
           /\ Det3(M) >= 0

(* quarter-turn angles by index q in 0..3 *)
QA(q) == CASE q % 4 = 0 -> <<1, 0, 1>> [] q % 4 = 1 -> <<0, 1, 1>> [] q % 4 = 2 -> <<-1, 0, 1>> [] OTHER -> <<0, -1, 1>>
Zero3 == <<1, 0, 1>>
(* SE(3) action of the transform (yaw quarter q, translation T) on a pose (p, roll quarter rq, pitch 0, yaw quarter yq) *)
ActPos(q, T, p) == LET v == MatVec(Rz(QA(q)), p) IN <<v[1] + T[1], v[2] + T[2], v[3] + T[3]>>
ActAtt(q, rq, yq) == <<rq % 4, 0, (yq + q) % 4>>
(* Jacobian of that map with respect to (x, y, z, roll, pitch, yaw): blockdiag(Rz(q), I) *)
Jtrue(q) == [i \in 1..6 |-> [j \in 1..6 |->
              IF i <= 3 /\ j <= 3 THEN Rz(QA(q))[i][j] ELSE IF i = j THEN 1 ELSE 0]]
Propagate(J, Cm) == MulN(MulN(J, Cm, 6), TrN(J, 6), 6)

(* AS CODED in operator*(Affine3d, Pose3D) (known finding): the position block is R * Rpose, and the attitude rows *)
(* are assembled from the as-coded derivative matrices of SmartRotation3D with the weights a21, a22, a20, a10, a00 *)
Col(X, j) == <<X[1][j], X[2][j], X[3][j]>>
Row(X, i) == X[i]
Dot(u, v) == u[1] * v[1] + u[2] * v[2] + u[3] * v[3]
JAsCoded(q, rq, yq) ==
  LET Rt == Rz(QA(q))
      r == QA(rq)  y == QA(yq)
      rot == MatMul(Rt, R(r, Zero3, y))
      dX == DRdRollAsCoded(r, Zero3, y)  dY == DRdPitchAsCoded(r, Zero3, y)  dZ == DRdYawAsCoded(r, Zero3, y)
      a21 == rot[3][3]  a22 == rot[3][2]                     \* / (r21^2 + r22^2) = 1 on this lattice
      a10 == Rt[1][1]   a00 == Rt[2][1]                      \* / (r00^2 + r10^2) = 1
      w(D) == [k \in 1..3 |-> a21 * Col(D, 2)[k] - a22 * Col(D, 3)[k]]
      v == [k \in 1..3 |-> -a00 * rot[1][k] + a10 * rot[2][k]]
  IN [i \in 1..6 |-> [j \in 1..6 |->
       IF i <= 3 /\ j <= 3 THEN rot[i][j]
       ELSE IF i = 4 /\ j = 4 THEN Dot(Row(Rt, 3), w(dX)) ELSE IF i = 4 /\ j = 5 THEN Dot(Row(Rt, 3), w(dY))
       ELSE IF i = 4 /\ j = 6 THEN Dot(Row(Rt, 3), w(dZ))
       ELSE IF i = 5 /\ j = 4 THEN Dot(Row(Rt, 3), Col(dX, 1)) ELSE IF i = 5 /\ j = 5 THEN Dot(Row(Rt, 3), Col(dY, 1))
       ELSE IF i = 5 /\ j = 6 THEN Dot(Row(Rt, 3), Col(dZ, 1))
       ELSE IF i = 6 /\ j = 4 THEN Dot(v, Col(dY, 1)) ELSE IF i = 6 /\ j = 5 THEN Dot(v, Col(dX, 1))
       ELSE IF i = 6 /\ j = 6 THEN Dot(v, Col(dZ, 1)) ELSE 0]]

(* ellipse of the covariance Q diag(a^2, b^2) Q^T, Q the lattice rotation <<c, s, d>>: entries times d^2 *)
EllipseCov(a, b, ang) == << <<C(ang) * C(ang) * a * a + S(ang) * S(ang) * b * b, C(ang) * S(ang) * (a * a - b * b)>>,
                            <<C(ang) * S(ang) * (a * a - b * b), S(ang) * S(ang) * a * a + C(ang) * C(ang) * b * b>> >>
(* ---- generic (real-valued) inputs: residuals measured by the harness in units of 1e-12 (relative to the size of the data):      *)
(* reductions select exactly the planar entries; a rigid transform (any axis, any angle) acts on position as R p + T and on the      *)
(* attitude as the rotation R * R(attitude) (identity neutral, successive transforms compose); the ellipse of a random PSD           *)
(* covariance (rank-deficient included) has major >= minor >= 0 and reconstructs the covariance.  Bound 1e-9.                        *)
GenericOK(res) == \A i \in 1..Len(res) : res[i] <= 1000
=============================================================================
