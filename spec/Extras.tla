-------------------------------- MODULE Extras --------------------------------
(***************************************************************************)
(* Growth of the specification beyond the listed properties (DESIGN 2):    *)
(*  - PID (src/control/PID.cpp): integrator clamp / dead-band state        *)
(*    machine on integer ticks (8 ticks per second, so dt is dyadic);      *)
(*  - FirstOrderButterworth (src/signal): first-order low-pass with        *)
(*    weighting 1/2 or 3/4 (dyadic, exact), initialisation and reset;      *)
(*  - the one-to-one filtering of correspondences used by ICP / RANSAC     *)
(*    (sort by index then distance, unique by index): a sequence spec;     *)
(*  - Time.hpp duration conversions (integer arithmetic).                  *)
(* None of this is attached to a property id: rejections are reported by   *)
(* `./check X01` only, never as a VIOLATION of a listed property.          *)
(***************************************************************************)
EXTENDS Integers, Sequences, FiniteSets, TLC

Abs(x) == IF x < 0 THEN -x ELSE x
Clamp(x, lo, hi) == IF x < lo THEN lo ELSE IF x > hi THEN hi ELSE x

(* ---------------- PID.  Times in ticks (8 per second); the integral is kept times 8. *)
VARIABLES pidHas, pidErr, pidAt, pidI8, kp, ki, kd, imin8, imax8, eps
pidvars == <<pidHas, pidErr, pidAt, pidI8, kp, ki, kd, imin8, imax8, eps>>
PidSetUp(p, i, d, lo8, hi8, e) == /\ pidHas' = FALSE /\ pidErr' = 0 /\ pidAt' = 0 /\ pidI8' = 0
                                  /\ kp' = p /\ ki' = i /\ kd' = d /\ imin8' = lo8 /\ imax8' = hi8 /\ eps' = e
(* compute(stamp, setpoint, measurement) -> output; logged as out8k = output * 8 * dt (an integer) *)
PidCompute(at, sp, meas, out8k) ==
  LET e == sp - meas  dt == at - pidAt IN
  /\ IF pidHas
       THEN /\ dt > 0
            /\ pidI8' = (IF Abs(e) > eps THEN Clamp(pidI8 + e * dt, imin8, imax8) ELSE 0)
            /\ out8k = 8 * dt * kp * sp + ki * pidI8' * dt + 64 * kd * (e - pidErr)
       ELSE pidI8' = pidI8 /\ out8k = 0
  /\ pidHas' = TRUE /\ pidErr' = e /\ pidAt' = at
  /\ UNCHANGED <<kp, ki, kd, imin8, imax8, eps>>
IntegralBounded == imin8 <= imax8 => (pidI8 = 0 \/ (imin8 <= pidI8 /\ pidI8 <= imax8))

(* ---------------- First-order Butterworth with weighting w/4 (w in 0..4); values times 4^n stay dyadic: logged exactly
   as numerator over 2^40.  We keep the filtered value as a rational num / den with den a power of two. *)
VARIABLES fInit, fNum, fDen, fPrev, fw
fvars == <<fInit, fNum, fDen, fPrev, fw>>
FSetUp(w) == fInit' = FALSE /\ fNum' = 0 /\ fDen' = 1 /\ fPrev' = 0 /\ fw' = w
RECURSIVE Reduce2(_, _)
Reduce2(n, d) == IF d > 1 /\ n % 2 = 0 THEN Reduce2(n \div 2, d \div 2) ELSE <<n, d>>
(* filtered' = w/4 * filtered + (4 - w)/8 * (x + prev) *)
FUpdate(x) ==
  /\ IF fInit
       THEN LET n == 2 * fw * fNum + (4 - fw) * (x + fPrev) * fDen   d == 8 * fDen   r == Reduce2(n, d)
            IN fNum' = r[1] /\ fDen' = r[2]
       ELSE fNum' = x /\ fDen' = 1
  /\ fInit' = TRUE /\ fPrev' = x /\ fw' = fw
FReset == fInit' = FALSE /\ fNum' = 0 /\ fDen' = 1 /\ fPrev' = 0 /\ fw' = fw

(* ---------------- one-to-one filtering of correspondences: sort by (index, distance), keep the first of each index *)
Key(c, byTarget) == IF byTarget THEN c[2] ELSE c[1]                  \* c = <<source, target, d2>>
Best(cs, byTarget) == {c \in cs : \A o \in cs : Key(o, byTarget) = Key(c, byTarget) => c[3] <= o[3]}
(* the result is a sequence: strictly increasing keys, one correspondence per key present in the input, each of minimal distance *)
OneToOneOK(inp, out, byTarget) ==
  LET ins == {inp[k] : k \in DOMAIN inp} IN
  /\ \A k \in DOMAIN out : out[k] \in Best(ins, byTarget)
  /\ \A k \in 1..(Len(out) - 1) : Key(out[k], byTarget) < Key(out[k + 1], byTarget)
  /\ {Key(c, byTarget) : c \in ins} = {Key(out[k], byTarget) : k \in DOMAIN out}

(* ---------------- RANSAC control loop (src/regression/ransac/Ransac.cpp) driven through a scripted RansacModel (the abstract *)
(* model class is the mock seam): script[i] = <<drawOk, inliers>> is what the i-th draw / countInliers returns; B[c + 1] is the *)
(* iteration bound of the standard formula for c inliers (an input table computed by the harness).  The loop runs while        *)
(* iter < bound; a strictly better consensus lowers the bound; it succeeds iff the best consensus exceeds the sample size.     *)
RECURSIVE RansacRun(_, _, _, _, _, _)
RansacRun(script, B, iter, best, bound, ncount) ==
  IF iter >= bound \/ iter >= Len(script) THEN [draws |-> iter, best |-> best, counts |-> ncount]
  ELSE LET ok == script[iter + 1][1]  c == script[iter + 1][2]
           better == ok /\ c > best
       IN RansacRun(script, B, iter + 1, IF better THEN c ELSE best,
                    IF better /\ B[c + 1] < bound THEN B[c + 1] ELSE bound, IF ok THEN ncount + 1 ELSE ncount)
RansacOK(t) ==
  IF t.N < t.minInl
    THEN t.draws = 0 /\ t.counts = 0 /\ ~t.ret /\ t.refines = 0                       \* too few points: nothing is tried
    ELSE LET r == RansacRun(t.script, t.B, 0, 0, 1000, 0) IN
         /\ r.draws <= 1000 /\ t.draws = r.draws /\ t.counts = r.counts
         /\ t.ret = (r.best > t.m)
         /\ t.refines = (IF t.ret THEN 1 ELSE 0)                                         \* refined exactly once, only on success

(* ---------------- NLSE Gauss-Newton control loop (src/regression/leastsquares/NLSE.cpp) driven through a scripted subclass *)
(* (computeGuess_ / computeJacobianAndY_ are the seam): one parameter, four rows of Jacobian 1 and residual r[k] at the k-th  *)
(* evaluation, so that the SVD step is exactly r[k] and the damped step 0.7 r[k].  The thresholds are chosen by the harness   *)
(* so that "step smaller than epsilon" means |r| <= E and "final error too large" means |r| > S, away from rounding.          *)
(* Result: iterations, number of evaluations, verdict, ten times the estimate (10 x0 - 7 * sum of applied residuals).         *)
RECURSIVE NlseLoop(_, _, _, _, _, _)
NlseLoop(r, maxIt, E, iter, calls, sum) ==
  IF iter >= maxIt THEN [iter |-> iter, calls |-> calls, sum |-> sum, broke |-> FALSE]
  ELSE LET v == r[calls + 1] IN
       IF Abs(v) <= E THEN [iter |-> iter, calls |-> calls + 1, sum |-> sum, broke |-> TRUE]
       ELSE NlseLoop(r, maxIt, E, iter + 1, calls + 1, sum + v)
NlseOK(t) ==
  LET o == NlseLoop(t.r, t.maxIt, t.E, 0, 0, 0) IN
  /\ t.guesses = 1 /\ t.iters = o.iter /\ t.est10 = 10 * t.x0 - 7 * o.sum
  /\ IF ~o.broke
       THEN ~t.ret /\ t.calls = o.calls /\ t.rmseUnset                                  \* iteration budget exhausted
       ELSE LET last == t.r[o.calls + 1] IN                                              \* one more evaluation at the solution
            /\ t.calls = o.calls + 1
            /\ t.ret = (Abs(last) <= t.S)
            /\ IF t.ret THEN ~t.rmseUnset /\ t.mse2 = Abs(last) ELSE t.rmseUnset

(* ---------------- SimpleFileLogger (include/.../log/SimpleFileLogger.hpp): a sequential state machine whose output is a    *)
(* file.  Column names are small integers, values integers; a file line is the sequence of its fields, a header line starts  *)
(* with -1000.  Nothing is recorded or written while no file is open; the first written row is the header, named after the     *)
(* entries pending at that time (their values are dropped, as coded); every written row clears the pending entries.         *)
VARIABLES lgOpen, lgCols, lgPending, lgLines
lgvars == <<lgOpen, lgCols, lgPending, lgLines>>
LgSetUp(open) == lgOpen' = open /\ lgCols' = <<>> /\ lgPending' = <<>> /\ lgLines' = <<>>
LgAdd(name, v) == /\ lgPending' = (IF lgOpen THEN Append(lgPending, <<name, v>>) ELSE lgPending)
                  /\ UNCHANGED <<lgOpen, lgCols, lgLines>>
LgWrite ==
  IF ~lgOpen THEN UNCHANGED lgvars
  ELSE /\ lgOpen' = lgOpen /\ lgPending' = <<>>
       /\ IF lgCols = <<>>
            THEN /\ lgCols' = [k \in DOMAIN lgPending |-> lgPending[k][1]]
                 /\ lgLines' = Append(lgLines, <<-1000>> \o [k \in DOMAIN lgPending |-> lgPending[k][1]])
            ELSE /\ lgCols' = lgCols
                 /\ lgLines' = Append(lgLines, [k \in DOMAIN lgPending |-> lgPending[k][2]])
IsHeader(ln) == Len(ln) > 0 /\ ln[1] = -1000
\* the first line is a header; once a header has named at least one column no further header is written (an empty row written
\* first leaves the columns unnamed, so the next row is a header again - as coded)
LgHeaderFirst == /\ lgLines # <<>> => IsHeader(lgLines[1])
                 /\ \A j, k \in DOMAIN lgLines : j < k /\ IsHeader(lgLines[j]) /\ Len(lgLines[j]) > 1 => ~IsHeader(lgLines[k])

(* ---------------- angle wrapping (math/EulerAngles.hpp) in eighths of a turn: the result is congruent to the input modulo a *)
(* turn and lies in the stated range (both ends of [-pi, pi] are legitimate for an input congruent to pi).                    *)
Wrap02OK(k, j) == j >= 0 /\ j <= 8 /\ (j - k) % 8 = 0 /\ (j = 8 => k % 8 = 0)
WrapPiOK(k, j) == j >= -4 /\ j <= 4 /\ (j - k) % 8 = 0

(* ---------------- math/Algorithm.hpp on halves (x2 = 2 x so that .5 values are integers) *)
SignOf(x) == IF x < 0 THEN -1 ELSE 1
SignedMin(x, y) == IF x >= 0 \/ y >= 0 THEN (IF x < y THEN x ELSE y) ELSE (IF x > y THEN x ELSE y)
SignedFloor2(x2) == IF x2 >= 0 THEN x2 \div 2 ELSE -((-x2) \div 2)                     \* toward zero
AlgoOK(t) == /\ t.sign = SignOf(t.x2) /\ t.smin = SignedMin(t.x2, t.y2) /\ t.sfloor = SignedFloor2(t.x2)
             /\ t.clamp = Clamp(t.x2, t.lo2, t.hi2) /\ t.sclamp = Clamp(t.x2, -Abs(t.y2), Abs(t.y2))
             /\ t.divHas = (t.y2 # 0) /\ (t.y2 # 0 => (t.x2 % Abs(t.y2) = 0 => t.div = (t.x2 \div Abs(t.y2)) * SignOf(t.y2)))

(* ---------------- Interval<Scalar, DIM> / IntervalComplement (math/Interval.hpp), DIM in {2, 3}: a box, its hull with another, *)
(* membership (closed), and membership of the complement within limits.                                                        *)
InBoxN(lo, hi, p) == \A a \in DOMAIN p : lo[a] <= p[a] /\ p[a] <= hi[a]
MinN(u, v) == [a \in DOMAIN u |-> IF u[a] < v[a] THEN u[a] ELSE v[a]]
MaxN(u, v) == [a \in DOMAIN u |-> IF u[a] > v[a] THEN u[a] ELSE v[a]]
IntervalNOK(t) == /\ t.inside = InBoxN(t.lo, t.hi, t.p)
                  /\ t.width = [a \in DOMAIN t.lo |-> t.hi[a] - t.lo[a]] /\ t.center2 = [a \in DOMAIN t.lo |-> t.hi[a] + t.lo[a]]
                  /\ t.hullLo = MinN(t.lo, t.lo2) /\ t.hullHi = MaxN(t.hi, t.hi2)
                  /\ t.hullInside = InBoxN(MinN(t.lo, t.lo2), MaxN(t.hi, t.hi2), t.p)
                  /\ t.complInside = (~InBoxN(t.lo, t.hi, t.p) /\ InBoxN(t.limLo, t.limHi, t.p))

(* ---------------- RansacIterations (regression/ransac): the iteration bound is a running minimum, starting at the maximal number *)
(* of iterations, of n(w) = floor(log(1 - p) / log(1 - w^k)) with w = inliers / points: the smallest-but-one n for which the       *)
(* probability q^n of never having drawn an all-inlier sample, q = 1 - w^k = a / b, is still at least 1 - p = 2^-pk.  In integers: *)
(* a^n 2^pk >= b^n and a^(n+1) 2^pk <= b^(n+1) (both non-strict: when q^m = 1 - p exactly, floating point may answer m or m - 1).  *)
(* An update that does not lower the bound must have n >= bound: a^bound 2^pk >= b^bound.  u = <<inliers, k, bound after, chk>>;  *)
(* chk = 0 when the powers would leave TLC's integers - then only the monotonicity is checked.                                    *)
RECURSIVE XPow(_, _)
XPow(a, n) == IF n = 0 THEN 1 ELSE a * XPow(a, n - 1)
RansacItStepOK(N, pk, prev, u) ==
    LET b == XPow(N, u[2])  a == b - XPow(u[1], u[2])  now == u[3] IN
    /\ now >= 0 /\ now <= prev
    /\ u[4] = 1 => IF now < prev THEN /\ XPow(a, now) * XPow(2, pk) >= XPow(b, now)
                                     /\ XPow(a, now + 1) * XPow(2, pk) <= XPow(b, now + 1)
                    ELSE XPow(a, prev) * XPow(2, pk) >= XPow(b, prev)
RansacItOK(t) == /\ t.first
                 /\ \A j \in DOMAIN t.ups : RansacItStepOK(t.N, t.pk, IF j = 1 THEN t.maxIt ELSE t.ups[j - 1][3], t.ups[j])

(* ---------------- MEstimator (regression/leastsquares): Huber weights from the median and the median absolute deviation, as coded: *)
(* median = element n div 2 (0-based) of the sorted residuals, MAD = the same element of the sorted absolute deviations, threshold  *)
(* 1.2107 max(1.4826 MAD, noise std); a datum is down-weighted (weight < 1) iff its deviation exceeds the threshold, and the value *)
(* returned is the share of down-weighted data.  Integer residuals |r| <= 20 and integer noise std: 1.2107 * 1.4826 = 1.79498382   *)
(* and no ratio of two integers up to 40 lies between 1.79498382 and 1.795, so the comparisons are exact in integers.  Each call    *)
(* must depend on its own residuals only (the object keeps its buffers from one call to the next).                                *)
MAbs(x) == IF x < 0 THEN -x ELSE x
MestOK(t) ==
    LET n == Len(t.r)
        srt == SortSeq(t.r, LAMBDA x, y : x < y)
        med == srt[(n \div 2) + 1]
        dev == [j \in 1..n |-> MAbs(t.r[j] - med)]
        mad == SortSeq(dev, LAMBDA x, y : x < y)[(n \div 2) + 1]
        Down(j) == IF 14826 * mad >= 10000 * t.sd THEN dev[j] * 1000 > 1795 * mad ELSE dev[j] * 10000 > 12107 * t.sd
    IN /\ t.ex
       /\ t.cnt = (IF \E j \in 1..n : Down(j) THEN 1 ELSE 0)
\* DEVIATION modelled as coded: the count is taken with Eigen's `.sum()` of a boolean array, which saturates at 1, so the value
\* returned is 1/n when any datum is down-weighted and 0 otherwise.  The share the code's comment intends would be
\* Cardinality({j \in 1..n : Down(j)}); with that line the recorded traces are rejected (first met: residuals
\* <<-3,-20,0,14,17,-17,17,17,16>>, noise std 1: 4 data beyond the threshold, 1/9 returned).  Outside the listed properties.

(* ---------------- durations (nanoseconds as the unit; values kept below 2^31) *)
FromMicro(us) == us * 1000
ToMicro(ns) == IF ns >= 0 THEN ns \div 1000 ELSE -((-ns) \div 1000)          \* C++ integer division truncates toward zero
=============================================================================
