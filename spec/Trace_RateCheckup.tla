-------------------------- MODULE Trace_RateCheckup --------------------------
(* Trace validation of RateMonitoring / CheckupEqualToRate / CheckupGreaterThanRate *)
(* histories recorded by harness/drive_rate.cpp (C17).                              *)
EXTENDS RateCheckup, TLC, Json, IOUtils
Tr == ndJsonDeserialize(IOEnv.TRACE)
VARIABLES l, mode            \* mode: "mon" (RateMonitoring alone), "eq", "gt"
tvars == <<rcvars, l, mode>>
TraceInit == RcInitWith("eq", 8, 0, 1000) /\ l = 1 /\ mode = "mon"
IsEvent(e) == l <= Len(Tr) /\ Tr[l].e = e /\ l' = l + 1

Abs(x) == IF x < 0 THEN -x ELSE x
\* the info string prints the rate with 6 significant digits; the harness converts it back to a span
ValueClose(vs, s) == IF s = 0 THEN vs = 0 ELSE vs > 0 /\ Abs(vs - s) <= s \div 100000 + 1

ObservedReport ==
  LET t == Tr[l] IN
  /\ t.status = report'.status /\ t.verdict = report'.verdict /\ t.named
  /\ t.has = report'.value.has
  /\ report'.value.has => ValueClose(t.valueSpan, report'.value.k)

TReset == /\ IsEvent("Reset") /\ mode' = Tr[l].kind
          /\ RcSetUp(IF Tr[l].kind = "mon" THEN "eq" ELSE Tr[l].kind, Tr[l].rate8, Tr[l].eps8, Tr[l].T)
TObserve == IsEvent("observe") /\ UNCHANGED <<rcvars, mode>> /\ ObservedReport
TStampMon == /\ IsEvent("stamp") /\ mode = "mon" /\ Stamp(Tr[l].dt) /\ UNCHANGED <<ckvars, mode>>
             /\ Tr[l].exact /\ Tr[l].span = span' /\ Tr[l].span2 = span'        \* returned rate and getRate()
TStampChk == /\ IsEvent("stamp") /\ mode # "mon" /\ EvaluateStamp(Tr[l].dt) /\ UNCHANGED mode
             /\ ObservedReport /\ Tr[l].ret = returned'
THbMon == /\ IsEvent("hb") /\ mode = "mon" /\ Heartbeat(Tr[l].gap) /\ UNCHANGED <<ckvars, mode>>
          /\ Tr[l].timeout = TimesOut(Tr[l].gap) /\ Tr[l].exact /\ Tr[l].span2 = span'
THbChk == /\ IsEvent("hb") /\ mode # "mon" /\ HeartBeat(Tr[l].gap) /\ UNCHANGED mode
          /\ Tr[l].timeout = TimesOut(Tr[l].gap) /\ ObservedReport
TraceNext == TReset \/ TObserve \/ TStampMon \/ TStampChk \/ THbMon \/ THbChk
TraceSpec == TraceInit /\ [][TraceNext]_tvars
TReportAgrees == mode # "mon" => ReportAgrees      \* RateMonitoring alone has no report
TraceAccepted == TLCGet("stats").diameter - 1 = Len(Tr)
=============================================================================
