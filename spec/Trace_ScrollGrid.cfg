SPECIFICATION TraceSpec
INVARIANTS Refines OffsetIsAccumulated HistoryMeaning
POSTCONDITION TraceAccepted
CHECK_DEADLOCK FALSE
