---------------------------- MODULE MC_RateCheckup ----------------------------
EXTENDS RateCheckup, TLC, Json
CONSTANTS Kinds, Rates8, Eps8s, Ticks, Dts, Gaps, Extra
VARIABLES hist
mcvars == <<rcvars, hist>>
View == rcvars
Init == /\ \E kd \in Kinds, r \in Rates8, e \in Eps8s : RcInitWith(kd, r, e, Ticks)
        /\ hist = <<>>
DoStamp == \E dt \in Dts : nst < W + Extra /\ EvaluateStamp(dt) /\ hist' = Append(hist, [e |-> "stamp", dt |-> dt])
DoHeartBeat == \E g \in Gaps : HeartBeat(g) /\ hist' = Append(hist, [e |-> "hb", gap |-> g])
Next == DoStamp \/ DoHeartBeat
Spec == Init /\ [][Next]_mcvars
EmitState == PrintT(ToJson([kind |-> kind, rate8 |-> ta, eps8 |-> tb, T |-> T, path |-> hist, dts |-> Dts, gaps |-> Gaps]))
=============================================================================
