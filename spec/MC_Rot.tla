-------------------------------- MODULE MC_Rot --------------------------------
EXTENDS Rot, TLC
VARIABLES dummy
Init == dummy = 0
Next == UNCHANGED dummy
Quarter == {<<1, 0, 1>>, <<0, 1, 1>>, <<-1, 0, 1>>, <<0, -1, 1>>}
Pyth5  == {<<3, 4, 5>>, <<4, 3, 5>>, <<-3, 4, 5>>, <<-4, 3, 5>>, <<-3, -4, 5>>, <<-4, -3, 5>>, <<3, -4, 5>>, <<4, -3, 5>>}
Pyth25 == {<<7, 24, 25>>, <<24, 7, 25>>, <<-7, 24, 25>>, <<24, -7, 25>>}
Angles == Quarter \cup Pyth5 \cup Pyth25
Pitches == {a \in Angles : C(a) > 0}
Laws ==
  /\ \A a \in Angles : IsAngle(a)
  /\ \A r \in Angles, p \in Pitches, y \in Angles :
       /\ Orthogonal(R(r, p, y), Den3(r, p, y))
       /\ ExtractionOK(r, p, y)
       /\ Den3(r, p, y) <= 625 =>
            /\ ProperRot(R(r, p, y), Den3(r, p, y))
            /\ SkewOK(R(r, p, y), DRdRoll(r, p, y)) /\ SkewOK(R(r, p, y), DRdPitch(r, p, y)) /\ SkewOK(R(r, p, y), DRdYaw(r, p, y))
            /\ ~SkewOK(R(r, p, y), DRdRollAsCoded(r, p, y))          \* the as-coded derivative is NOT a derivative of a rotation
LawsHold == Laws
=============================================================================
