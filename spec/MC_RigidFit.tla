------------------------------ MODULE MC_RigidFit ------------------------------
(* Spec-level facts behind C04: for a non-collinear source set two distinct proper motions never produce the same   *)
(* targets (the proper solution is unique, so "recovers the motion" is well defined), while for a coplanar 3D set    *)
(* an improper orthogonal map produces the same targets - which is why the estimator must enforce det = +1.          *)
EXTENDS RigidFit, TLC
VARIABLES dummy
Init == dummy = 0
Next == UNCHANGED dummy
Rots2 == {<<<<1, 0>>, <<0, 1>>>>, <<<<0, -1>>, <<1, 0>>>>, <<<<-1, 0>>, <<0, -1>>>>, <<<<0, 1>>, <<-1, 0>>>>}
Pts2 == {<<x, y>> : x \in 0..2, y \in 0..2}
Ts2 == {<<x, y>> : x \in -1..1, y \in -1..1}
Image(Q, t, S) == [k \in 1..Len(S) |-> [i \in 1..2 |-> MatVec(Q, S[k])[i] + t[i]]]
LawUnique2D ==
  \A a, b, c \in Pts2 : ~Collinear2(a, b, c) =>
     \A Q1, Q2 \in Rots2 : \A t1, t2 \in Ts2 :
        (Q1 # Q2 \/ t1 # t2) => Image(Q1, t1, <<a, b, c>>) # Image(Q2, t2, <<a, b, c>>)
Mirror == <<<<1, 0, 0>>, <<0, 1, 0>>, <<0, 0, -1>>>>
Planar3 == {<<x, y, 0>> : x \in 0..2, y \in 0..2}
LawCoplanarAmbiguity ==
  /\ Improper(Mirror, 1)
  /\ \A p \in Planar3 : MatVec(Mirror, p) = p            \* the mirror image of a coplanar set is the set itself
LawsHold == LawUnique2D /\ LawCoplanarAmbiguity
=============================================================================
