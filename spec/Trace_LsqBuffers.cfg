SPECIFICATION TraceSpec
INVARIANTS CapacityCoversData OnlyCurrentRows
POSTCONDITION TraceAccepted
CHECK_DEADLOCK FALSE
