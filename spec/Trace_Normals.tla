----------------------------- MODULE Trace_Normals -----------------------------
(* Validation of normals recorded by harness/drive_normals.cpp (C09). *)
EXTENDS Normals, TLC, Json, IOUtils
Tr == ndJsonDeserialize(IOEnv.TRACE)
VARIABLES l
TraceInit == l = 1
IsEvent(ev) == l <= Len(Tr) /\ Tr[l].e = ev /\ l' = l + 1
TReset == IsEvent("Reset")
\* planar / linear cloud: every point with a well-conditioned neighbourhood gets the surface normal, curvature 0
TPlanar == /\ IsEvent("planar")
           /\ LET t == Tr[l] IN
              /\ IsUnit(t.nrm, t.den) /\ t.c # 0
              /\ (\A i \in 1..Len(t.pts) : OnSurface(t.nrm, t.c, t.pts[i])) = TRUE
              /\ (\A i \in 1..Len(t.outs) : t.gap[i] => (t.exact[i] /\ t.curv0[i] /\ NormalOK(t.outs[i], t.nrm, t.c))) = TRUE
\* two surfaces far apart, one estimator and one buffer reused frame after frame: each point gets the normal of ITS patch
TPatches == /\ IsEvent("patches")
            /\ LET t == Tr[l] IN
               /\ IsUnit(t.nrm1, t.den) /\ IsUnit(t.nrm2, t.den) /\ t.c1 # 0 /\ t.c2 # 0
               /\ (\A i \in 1..Len(t.pts) : IF t.patch[i] = 1 THEN OnSurface(t.nrm1, t.c1, t.pts[i]) ELSE OnSurface(t.nrm2, t.c2, t.pts[i])) = TRUE
               /\ (\A i \in 1..Len(t.outs) : t.gap[i] =>
                      (t.exact[i] /\ t.curv0[i] /\ (IF t.patch[i] = 1 THEN NormalOK(t.outs[i], t.nrm1, t.c1) ELSE NormalOK(t.outs[i], t.nrm2, t.c2)))) = TRUE
\* any cloud: unit length, sensor-facing, curvature in [0, 1/DIM] (flags computed from the returned values)
TRange == IsEvent("range") /\ Tr[l].unit /\ Tr[l].facing /\ Tr[l].curvRange
\* rotating the cloud by a signed permutation rotates the normals by it
TEquiv == /\ IsEvent("equiv")
          /\ LET t == Tr[l] IN (\A i \in 1..Len(t.outs) : (t.gap[i] /\ t.gap2[i]) => t.outs2[i] = MatVec(t.Q, t.outs[i])) = TRUE
TLeastVar == IsEvent("leastvar") /\ LeastVarOK(Tr[l])
TraceNext == TLeastVar \/ TReset \/ TPlanar \/ TPatches \/ TRange \/ TEquiv
TraceSpec == TraceInit /\ [][TraceNext]_l
TraceAccepted == TLCGet("stats").diameter - 1 = Len(Tr)
=============================================================================
