-------------------------------- MODULE Boxes --------------------------------
(***************************************************************************)
(* Interval, AxisAlignedBoundingBox, OrientedBoundingBox, min/max/mean of  *)
(* EigenContainers and PointSetPreconditioner - property C20.              *)
(* Coordinates are DOUBLED integers (so that centres and half extents of   *)
(* integer intervals are integral).  A rotation is an integer matrix Q     *)
(* with a common denominator den: Q/den is orthonormal (signed             *)
(* permutations: den = 1; Pythagorean rotations: den = 5, 13, 25).         *)
(***************************************************************************)
EXTENDS Integers, Sequences, FiniteSets

Abs(x) == IF x < 0 THEN -x ELSE x
Dim(v) == Len(v)
Ax(v)  == 1..Len(v)
Min2(a, b) == IF a <= b THEN a ELSE b
Max2(a, b) == IF a >= b THEN a ELSE b

(* --- intervals and axis-aligned boxes (l, u, c2 = l + u, h2 = u - l: doubled centre and half extent) *)
BoxOfInterval(l, u) == [c |-> [a \in Ax(l) |-> l[a] + u[a]], h |-> [a \in Ax(l) |-> u[a] - l[a]]]   \* c, h doubled
IntervalOfBox(b)    == [l |-> [a \in Ax(b.c) |-> (b.c[a] - b.h[a]) \div 2], u |-> [a \in Ax(b.c) |-> (b.c[a] + b.h[a]) \div 2]]
InsideAABB(b, p2)   == \A a \in Ax(p2) : Abs(p2[a] - b.c[a]) <= b.h[a]            \* p2: doubled point
Hull(l1, u1, l2, u2) == [l |-> [a \in Ax(l1) |-> Min2(l1[a], l2[a])], u |-> [a \in Ax(l1) |-> Max2(u1[a], u2[a])]]

(* --- oriented boxes: centre c, half extents h (doubled), rotation Q / den *)
RECURSIVE SumTo(_, _)
SumTo(f, n) == IF n = 0 THEN 0 ELSE f[n] + SumTo(f, n - 1)
LocalCoord(Q, c, p2, a) == SumTo([b \in Ax(p2) |-> Q[b][a] * (p2[b] - c[b])], Len(p2))      \* (Q^T (p - c))[a] * den
InsideOBB(c, h, Q, den, p2) == \A a \in Ax(p2) : Abs(LocalCoord(Q, c, p2, a)) <= h[a] * den
OnFaceOBB(c, h, Q, den, p2) == \E a \in Ax(p2) : Abs(LocalCoord(Q, c, p2, a)) = h[a] * den
AabbHalfTimesDen(h, Q, a)   == SumTo([n \in Ax(h) |-> Abs(Q[a][n]) * h[n]], Len(h))        \* half extent of the derived AABB * den
Orthonormal(Q, den) == \A i, j \in Ax(Q) : SumTo([k \in Ax(Q) |-> Q[k][i] * Q[k][j]], Len(Q)) = (IF i = j THEN den * den ELSE 0)
Det2(Q) == Q[1][1] * Q[2][2] - Q[1][2] * Q[2][1]
Det3(Q) == Q[1][1] * (Q[2][2] * Q[3][3] - Q[2][3] * Q[3][2]) - Q[1][2] * (Q[2][1] * Q[3][3] - Q[2][3] * Q[3][1])
           + Q[1][3] * (Q[2][1] * Q[3][2] - Q[2][2] * Q[3][1])
Proper(Q, den) == Orthonormal(Q, den) /\ (IF Len(Q) = 2 THEN Det2(Q) = den * den ELSE Det3(Q) = den * den * den)

Signs(n) == [1..n -> {-1, 1}]
Corner(c, h, Q, s) == [a \in Ax(c) |-> SumTo([n \in Ax(c) |-> Q[a][n] * s[n] * h[n]], Len(c))]   \* (corner - c) * den, doubled
(* the derived axis-aligned box encloses every corner (hence the box) and every face is touched by a corner *)
Enclosing(c, h, Q) == \A s \in Signs(Len(c)) : \A a \in Ax(c) : Abs(Corner(c, h, Q, s)[a]) <= AabbHalfTimesDen(h, Q, a)
Tight(c, h, Q)     == \A a \in Ax(c) : \A sg \in {-1, 1} : \E s \in Signs(Len(c)) : Corner(c, h, Q, s)[a] = sg * AabbHalfTimesDen(h, Q, a)

(* --- extents of a point set: a fold over the sequence of points *)
Feed(st, p) == [mn |-> [a \in Ax(p) |-> IF st.n = 0 THEN p[a] ELSE Min2(st.mn[a], p[a])],
                mx |-> [a \in Ax(p) |-> IF st.n = 0 THEN p[a] ELSE Max2(st.mx[a], p[a])],
                sm |-> [a \in Ax(p) |-> (IF st.n = 0 THEN 0 ELSE st.sm[a]) + p[a]],
                n  |-> st.n + 1]
RECURSIVE FoldPts(_, _, _)
FoldPts(st, pts, k) == IF k > Len(pts) THEN st ELSE FoldPts(Feed(st, pts[k]), pts, k + 1)
Extent(pts) == FoldPts([mn |-> <<>>, mx |-> <<>>, sm |-> <<>>, n |-> 0], pts, 1)
MaxSide(st) == LET RECURSIVE M(_)
                   M(a) == IF a = 0 THEN 0 ELSE Max2(st.mx[a] - st.mn[a], M(a - 1))
               IN M(Len(st.mn))                          \* preconditioning scale = 1 / MaxSide
(* set-theoretic meaning of the fold (C20: "true componentwise extrema") *)
TrueExtrema(pts) == LET st == Extent(pts) IN
  \A a \in Ax(pts[1]) : /\ \A k \in DOMAIN pts : st.mn[a] <= pts[k][a] /\ pts[k][a] <= st.mx[a]
                        /\ \E k \in DOMAIN pts : st.mn[a] = pts[k][a]
                        /\ \E k \in DOMAIN pts : st.mx[a] = pts[k][a]
(* Generic oriented boxes (real-valued rotations, extents, centres): residuals measured on the real box, in units of one rounding *)
(* of the compared quantity: res = << half-extent of the derived axis-aligned box against the reach of the corners along each    *)
(* axis (enclosing and tight at once), its centre against the box centre >>; agree: membership equals the box-frame test on      *)
(* every point that is not within rounding of a face.                                                                            *)
GenericBound == 16
GenericOK(t) == t.agree /\ \A i \in 1..2 : t.res[i] <= GenericBound
=============================================================================
