------------------------------ MODULE Trace_Rot ------------------------------
(* Validation of rotation / angle / coordinate conversions recorded by harness/drive_rot.cpp (C10, C12). *)
(* All functions are pure: every event is checked on its own against the exact lattice operators.         *)
(* KNOWN = "1" additionally accepts the as-coded derivative matrices (named deviation, known finding).    *)
EXTENDS Rot, TLC, Json, IOUtils
Tr == ndJsonDeserialize(IOEnv.TRACE)
Known == IOEnv.KNOWN = "1"
VARIABLES l
TraceInit == l = 1
IsEvent(ev) == l <= Len(Tr) /\ Tr[l].e = ev /\ l' = l + 1
CS(a) == <<C(a), S(a)>>
Mat2(a) == << <<C(a), -S(a)>>, <<S(a), C(a)>> >>

TReset == IsEvent("Reset")
\* angles -> rotation (direct, via quaternion, via SmartRotation3D) and back (from the matrix, from a scaled quaternion)
TEuler == /\ IsEvent("euler")
          /\ LET t == Tr[l]  X == R(t.r, t.p, t.y) IN
             /\ t.ex /\ t.Rm = X /\ t.Rq = X /\ (t.hasRs => t.Rs = X)
             /\ t.back = <<CS(t.r), CS(t.p), CS(t.y)>> /\ t.qback = <<CS(t.r), CS(t.p), CS(t.y)>>
TSmart == /\ IsEvent("smart")
          /\ LET t == Tr[l]
                 exactD == <<DRdRoll(t.r, t.p, t.y), DRdPitch(t.r, t.p, t.y), DRdYaw(t.r, t.p, t.y)>>
                 codedD == <<DRdRollAsCoded(t.r, t.p, t.y), DRdPitchAsCoded(t.r, t.p, t.y), DRdYawAsCoded(t.r, t.p, t.y)>>
                 OK(dd) == /\ <<t.dX, t.dY, t.dZ>> = dd
                           /\ t.dRT = [i \in 1..3 |-> [j \in 1..3 |-> MatVec(dd[j], t.T)[i]]]      \* column j = dR/dangle_j * T
             IN t.ex /\ (OK(exactD) \/ (Known /\ OK(codedD)))
\* normalisers on quarter-turn multiples: congruent modulo 4 quarter turns, inside the advertised (closed) interval
TNorm == /\ IsEvent("norm")
         /\ LET t == Tr[l] IN
            /\ t.ex /\ (t.kq - t.k) % 4 = 0
            /\ IF t.which = "0_2pi" THEN t.kq >= 0 /\ t.kq <= 4 ELSE t.kq >= -2 /\ t.kq <= 2
TNormLat == /\ IsEvent("normlat")
            /\ LET t == Tr[l] IN t.ex /\ t.inr /\ t.back = CS(t.a)
TRot2 == /\ IsEvent("rot2")
         /\ LET t == Tr[l] IN t.ex /\ t.Rm = Mat2(t.a) /\ t.back = CS(t.a)
\* polar / spherical <-> Cartesian (range r integer, angles on the lattice)
TPolar == /\ IsEvent("polar")
          /\ LET t == Tr[l] IN t.ex /\ t.xy = <<t.r * C(t.a), t.r * S(t.a)>> /\ t.backr = t.r /\ t.backa = CS(t.a)
TSpher == /\ IsEvent("spher")
          /\ LET t == Tr[l] IN
             /\ t.ex /\ t.xyz = <<t.r * C(t.az) * S(t.el), t.r * S(t.az) * S(t.el), t.r * C(t.el) * Dn(t.az)>>
             /\ t.backr = t.r /\ t.backel = CS(t.el) /\ (S(t.el) # 0 => t.backaz = CS(t.az))
TGeneric == IsEvent("generic") /\ Tr[l].inRange /\ ResidualsOK(Tr[l].res, Tr[l].float = 1)
\* derivative matrices at generic angles: residual against the closed-form derivatives (exact) and against the as-coded variant
TSmartGen == IsEvent("smartgen") /\ (Tr[l].resExact <= 1000 \/ (Known /\ Tr[l].resCoded <= 1000))
TraceNext == TSmartGen \/ TGeneric \/ TReset \/ TEuler \/ TSmart \/ TNorm \/ TNormLat \/ TRot2 \/ TPolar \/ TSpher
TraceSpec == TraceInit /\ [][TraceNext]_l
TraceAccepted == TLCGet("stats").diameter - 1 = Len(Tr)
=============================================================================
