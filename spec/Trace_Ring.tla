------------------------------ MODULE Trace_Ring ------------------------------
(* Trace validation of RingOfEigenVector histories (harness/drive_stats.cpp). *)
EXTENDS Ring, TLC, Json, IOUtils
Tr == ndJsonDeserialize(IOEnv.TRACE)
VARIABLES l, saved
tvars == <<rgvars, l, saved>>
TraceInit == InitWith(1) /\ l = 1 /\ saved = <<>>
IsEvent(e) == l <= Len(Tr) /\ Tr[l].e = e /\ l' = l + 1

\* after every call the harness reads size() and operator[](k) for every k < size():
Observed == Tr[l].size = Len(items') /\ Tr[l].coherent /\ Tr[l].items = items'

TReset   == IsEvent("Reset") /\ SetUp(Tr[l].C) /\ UNCHANGED saved
TAppend  == IsEvent("append") /\ Append1(Tr[l].v) /\ Observed /\ UNCHANGED saved
TClear   == IsEvent("clear") /\ Clear /\ Observed /\ UNCHANGED saved
TSave    == IsEvent("save") /\ saved' = rgvars /\ UNCHANGED rgvars
TRestore == IsEvent("restore") /\ C' = saved[1] /\ items' = saved[2] /\ ring' = saved[3] /\ ridx' = saved[4]
            /\ UNCHANGED saved
TraceNext == TReset \/ TAppend \/ TClear \/ TSave \/ TRestore
TraceSpec == TraceInit /\ [][TraceNext]_tvars
TraceAccepted == TLCGet("stats").diameter - 1 = Len(Tr)
=============================================================================
