----------------------------- MODULE RateCheckup -----------------------------
(***************************************************************************)
(* CheckupRate<CheckupEqualTo|CheckupGreaterThan<double>>                  *)
(* (src/diagnostics/CheckupRate.cpp) = RateMonitor composed with Checkup,  *)
(* as in the code - second half of C17.                                    *)
(* Checkup's variables are reused: kind in {"eq","gt"}, ta = expected rate *)
(* and tb = epsilon, both in 1/8 Hz; report.value.k holds the span the     *)
(* printed rate stands for (0 = rate 0).                                   *)
(***************************************************************************)
EXTENDS RateMonitor, Checkup

rcvars == <<rmvars, ckvars>>

(* rate < thr8/8 and rate > thr8/8 for rate = W*T/s (s = 0: rate 0), by cross-multiplication *)
RateLt(s, thr8) == IF s = 0 THEN 0 < thr8 ELSE 8 * W * T < thr8 * s
RateGt(s, thr8) == IF s = 0 THEN 0 > thr8 ELSE 8 * W * T > thr8 * s
RateTie(s, thr8) == s # 0 /\ 8 * W * T = thr8 * s
(* The code compares a twice-rounded double quotient with the threshold: when the exact rate   *)
(* sits exactly on a threshold either outcome of that comparison is allowed; elsewhere it is   *)
(* determined (distinct rationals of this size differ by far more than double rounding).       *)
MayBe(exact, tie) == IF tie THEN {TRUE, FALSE} ELSE {exact}

RcSetUp(kd, rate8, eps8, t) == RmSetUp(WindowOf(rate8), t) /\ SetUp(kd, rate8, eps8, "nodata")
RcInitWith(kd, rate8, eps8, t) == RmInitWith(WindowOf(rate8), t) /\ InitWith(kd, rate8, eps8, "nodata")

EvaluateStamp(dt) ==
  /\ Stamp(dt)
  /\ \E c1 \in MayBe(IF kind = "eq" THEN RateLt(span', ta - tb) ELSE RateGt(span', ta - tb), RateTie(span', ta - tb)),
        c2 \in MayBe(RateGt(span', ta + tb), RateTie(span', ta + tb)) :
       LET v == IF kind = "eq" THEN EqVerdict(c1, c2) ELSE GtVerdict(c1) IN
       /\ report' = [status |-> v[1], verdict |-> v[2], value |-> Printed(span')]
       /\ returned' = v[1]
  /\ UNCHANGED <<kind, ta, tb>>

HeartBeat(gap) ==
  /\ Heartbeat(gap)
  /\ IF TimesOut(gap) THEN Timeout ELSE UNCHANGED ckvars

-----------------------------------------------------------------------------
(* C17: status, message and rate string agree with each other and with the rate *)
StatusAllowed(st, vd, s) ==
  IF kind = "eq"
    THEN \/ st = ERROR /\ vd = "low"  /\ (RateLt(s, ta - tb) \/ RateTie(s, ta - tb))
         \/ st = ERROR /\ vd = "high" /\ (RateGt(s, ta + tb) \/ RateTie(s, ta + tb))
         \/ st = OK /\ vd = "ok" /\ ~RateLt(s, ta - tb) /\ ~RateGt(s, ta + tb)
    ELSE \/ st = OK /\ vd = "ok" /\ (RateGt(s, ta - tb) \/ RateTie(s, ta - tb))
         \/ st = ERROR /\ vd = "low" /\ ~RateGt(s, ta - tb)
ReportAgrees ==
  /\ nst = 0 => report = InitialReport("nodata")                    \* 'no data received' before the first stamp
  /\ report.verdict = "timeout" => (span = 0 /\ ~report.value.has)  \* STALE with an empty value after a timeout
  /\ report.value.has => (report.value.k = span /\ StatusAllowed(report.status, report.verdict, span))
  /\ nst > 0 => report.verdict # "nodata"
=============================================================================
