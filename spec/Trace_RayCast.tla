----------------------------- MODULE Trace_RayCast -----------------------------
(* Trace validation of GridIndexMapping / RayCasting histories recorded by        *)
(* harness/drive_grid.cpp (C13, C14).  The spec is nondeterministic (ties, border *)
(* points with decimal units): the code's path is validated, not predicted.       *)
EXTENDS RayCast, TLC, Json, IOUtils
Tr == ndJsonDeserialize(IOEnv.TRACE)
VARIABLES l
tvars == <<givars, rcvars, l>>
TraceInit == GiInitWith(2, 2, <<0, 0>>, <<0, 0>>, FALSE, <<0, 0>>, <<1, 1>>) /\ RcInit0 /\ l = 1
IsEvent(ev) == l <= Len(Tr) /\ Tr[l].e = ev /\ l' = l + 1

\* constructor: number of cells and the centre of cell 0 (-> first) as observed
TReset ==
  /\ IsEvent("Reset")
  /\ Tr[l].exact
  /\ \A a \in 1..Tr[l].dim : Tr[l].c0[a] % Tr[l].R = 0
  /\ GiSetUp(Tr[l].dim, Tr[l].R, Tr[l].lo, Tr[l].hi, Tr[l].nd,
             [a \in 1..Tr[l].dim |-> Tr[l].c0[a] \div Tr[l].R], Tr[l].ncells)
  /\ o' = <<>> /\ e' = <<>> /\ oIdx' = <<>> /\ eIdx' = <<>> /\ cell' = <<>> /\ tNum' = <<>> /\ k' = 0 /\ active' = FALSE
\* the caster is pointed at another grid (setGridIndexMapping) after use: origin / end must be set again before the next cast
TReGrid ==
  /\ IsEvent("regrid")
  /\ Tr[l].exact
  /\ \A a \in 1..Tr[l].dim : Tr[l].c0[a] % Tr[l].R = 0
  /\ GiSetUp(Tr[l].dim, Tr[l].R, Tr[l].lo, Tr[l].hi, Tr[l].nd,
             [a \in 1..Tr[l].dim |-> Tr[l].c0[a] \div Tr[l].R], Tr[l].ncells)
  /\ active' = FALSE /\ UNCHANGED <<o, e, oIdx, eIdx, cell, tNum, k>>
TIndex ==
  /\ IsEvent("index") /\ UNCHANGED <<givars, rcvars>>
  /\ \A a \in Axes : /\ Tr[l].idx[a] \in Index1ND(a, Tr[l].p[a])
                     /\ Tr[l].idx[a] >= 0 /\ Tr[l].idx[a] < ncells[a]
                     /\ 2 * Abs(Tr[l].p[a] - Centre1(a, Tr[l].idx[a])) <= R
TCentre ==
  /\ IsEvent("centre") /\ UNCHANGED <<givars, rcvars>>
  /\ Tr[l].exact /\ \A a \in Axes : Tr[l].c[a] = Centre1(a, Tr[l].kk[a]) /\ Tr[l].tab[a] = Tr[l].c[a]      \* both accessors
TSetOrigin == IsEvent("setOrigin") /\ SetOrigin(Tr[l].p, Tr[l].idx) /\ UNCHANGED givars
TSetEnd    == IsEvent("setEnd") /\ SetEnd(Tr[l].p, Tr[l].idx) /\ Tr[l].first = cell' /\ UNCHANGED givars
TStep      == /\ IsEvent("step") /\ UNCHANGED givars
              /\ (IF ~active THEN FALSE ELSE k < L1)
              /\ \E a \in Axes : Next(a) /\ cell' = Tr[l].cell
\* the cast returned exactly L1 + 1 cells, and the same cells as a freshly constructed caster
TEndCast   == /\ IsEvent("endCast") /\ UNCHANGED <<givars, rcvars>>
              /\ (IF ~active THEN FALSE ELSE k = L1) /\ Tr[l].n = L1 + 1 /\ Tr[l].same
TGeneric == IsEvent("generic") /\ UNCHANGED <<givars, rcvars>> /\ GenericOK(Tr[l])
TGenericRay == IsEvent("genericray") /\ UNCHANGED <<givars, rcvars>> /\ GenericRayOK(Tr[l])
TraceNext == TGenericRay \/ TGeneric \/ TReGrid \/ TReset \/ TIndex \/ TCentre \/ TSetOrigin \/ TSetEnd \/ TStep \/ TEndCast
TraceSpec == TraceInit /\ [][TraceNext]_tvars
ConstructorOK == Constructed(first, ncells)
TraceAccepted == TLCGet("stats").diameter - 1 = Len(Tr)
=============================================================================
