-------------------------- MODULE MC_SlidingStats --------------------------
EXTENDS SlidingStats, TLC, Json
CONSTANTS Ws, Samples, Extra      \* histories are explored up to cnt <= 2W + Extra between resets
VARIABLES hist, w0, nrsz, nres     \* nres: resets so far (in the VIEW: a reset object is NOT merged with a fresh one,
                         \* so that generated paths continue after a reset - the code may keep hidden state there)
\* TLC configuration files cannot hold negative literals: sample sets live here
SamplesMixed == {-9, -5, -1, 0, 3, 4, 7, 8}      \* truncate to -2,-1,0,0,0,1,1,2
SamplesOdd   == {-9, -7, -3, -1, 1, 3, 5, 9}     \* never an exact multiple of the precision
mcvars == <<ssvars, hist, w0, nrsz, nres>>
View == <<ssvars, nres, nrsz>>       \* w0: the window size the object was constructed with; nrsz: reconfigurations so far

Init == (\E w \in Ws : InitWith(w) /\ w0 = w) /\ hist = <<>> /\ nres = 0 /\ nrsz = 0
DoUpdate == \E q \in Samples : cnt < 2 * W + Extra /\ Update(q) /\ hist' = Append(hist, [e |-> "update", q |-> q]) /\ nres' = nres /\ UNCHANGED <<w0, nrsz>>
DoReset  == cnt > 0 /\ nres < 2 /\ Reset /\ hist' = Append(hist, [e |-> "reset"]) /\ nres' = nres + 1 /\ UNCHANGED <<w0, nrsz>>
DoResize == \E w \in Ws : w # W /\ nrsz < 1 /\ Resize(w) /\ hist' = Append(hist, [e |-> "resize", W |-> w])
                             /\ nrsz' = nrsz + 1 /\ UNCHANGED <<w0, nres>>
Next == DoUpdate \/ DoReset \/ DoResize
Spec == Init /\ [][Next]_mcvars
EmitState == PrintT(ToJson([W |-> w0, path |-> hist]))
=============================================================================
