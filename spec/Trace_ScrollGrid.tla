-------------------------- MODULE Trace_ScrollGrid --------------------------
(* Trace validation: is the ndjson history recorded from the real            *)
(* WrappableGrid (harness/drive_scrollgrid.cpp) a behaviour of ScrollGrid?   *)
(* Executions are concatenated, each starting with a Reset event; save /     *)
(* restore events let the driver try every action from one state.            *)
EXTENDS ScrollGrid, TLC, Json, IOUtils

Tr == ndJsonDeserialize(IOEnv.TRACE)

VARIABLES l, saved
tvars == <<sgvars, l, saved>>

LinIdx(d, nn, c) == IF d = 2 THEN c[1] + nn[1] * c[2] ELSE c[1] + nn[1] * c[2] + nn[1] * nn[2] * c[3]
FromLin(d, nn, s) == [c \in CellsOf(d, nn) |-> s[LinIdx(d, nn, c) + 1]]

TraceInit == /\ InitWith(2, <<1, 1>>, [c \in {<<0, 0>>} |-> 0], FALSE)
             /\ l = 1 /\ saved = <<>>

IsEvent(e) == l <= Len(Tr) /\ Tr[l].e = e /\ l' = l + 1

Observed == Lin(win') = Tr[l].win /\ off' = Tr[l].off

TReset == /\ IsEvent("Reset")
          /\ SetUp(Tr[l].dim, Tr[l].n, FromLin(Tr[l].dim, Tr[l].n, Tr[l].init), FALSE)
          /\ UNCHANGED saved
TTranslate == IsEvent("translate") /\ Translate(Tr[l].d, Tr[l].empty) /\ Observed /\ UNCHANGED saved
TWrite     == IsEvent("write") /\ Write(Tr[l].i, Tr[l].v) /\ Observed /\ UNCHANGED saved
TFill      == IsEvent("fill") /\ Fill(Tr[l].v) /\ Observed /\ UNCHANGED saved
TSave      == IsEvent("save") /\ saved' = sgvars /\ UNCHANGED sgvars
TRestore   == /\ IsEvent("restore")
              /\ dim' = saved[1] /\ n' = saved[2] /\ init' = saved[3] /\ win' = saved[4] /\ off' = saved[5]
              /\ buf' = saved[6] /\ acc' = saved[7] /\ log' = saved[8] /\ keepLog' = saved[9]
              /\ UNCHANGED saved

TraceNext == TReset \/ TTranslate \/ TWrite \/ TFill \/ TSave \/ TRestore
TraceSpec == TraceInit /\ [][TraceNext]_tvars

TraceAccepted == TLCGet("stats").diameter - 1 = Len(Tr)
=============================================================================
