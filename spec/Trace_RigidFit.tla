---------------------------- MODULE Trace_RigidFit ----------------------------
(* Validation of registration results recorded by harness/drive_rigid.cpp (C04, C05). *)
EXTENDS RigidFit, TLC, Json, IOUtils
Tr == ndJsonDeserialize(IOEnv.TRACE)
VARIABLES l
TraceInit == l = 1
IsEvent(ev) == l <= Len(Tr) /\ Tr[l].e = ev /\ l' = l + 1
TReset == IsEvent("Reset")
\* exact correspondences of a lattice motion: the estimate is that motion (proper rotation, translation)
TSvd == /\ IsEvent("svd")
        /\ LET t == Tr[l] IN
           /\ t.ex
           /\ (t.logged => Consistent(t.Q, t.den, t.t, t.src, t.tgt))      \* the instance really is that motion (small sets are logged)
           /\ SvdAnswerOK([lin |-> t.Hlin, t |-> t.Ht], t.Q, t.den, t.t)
\* point-to-plane: the parameters read back from the returned matrix solve the normal equations of the rows the
\* spec builds from the logged points / normals, and equal the consistent parameter vector
TP2p == /\ IsEvent("p2p")
        /\ LET t == Tr[l]
               rows == [i \in 1..Len(t.src) |-> IF t.dim = 2 THEN Row2(t.src[i], t.nrm[i]) ELSE Row3(t.src[i], t.nrm[i])]
           IN /\ t.ex
              /\ NormalEq(rows, t.ys, t.x)
              /\ t.x = t.xstar
              /\ t.Hm = (IF t.dim = 2 THEN SmallMotion2(t.x) ELSE SmallMotion3(t.x))
TGeneric == IsEvent("generic") /\ GenericOK(Tr[l].res, Tr[l].float = 1)
TraceNext == TGeneric \/ TReset \/ TSvd \/ TP2p
TraceSpec == TraceInit /\ [][TraceNext]_l
TraceAccepted == TLCGet("stats").diameter - 1 = Len(Tr)
=============================================================================
